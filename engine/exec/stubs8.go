package exec

import (
	"encoding/json"
	"strings"

	"gosym/smt"
)

// os / filepath: the environment is a virtual file system implemented by the harness in
// the package under test (functions hOsStat, hOsReadFile, hOsUserHomeDir); the stubs
// delegate to them. Without those functions a call into os is unsupported.

type vfileHandle struct{ content string }

func (in *Interp) harnessFunc(name string) *Closure {
	for _, pkg := range in.Prog.AllPackages() {
		if f := pkg.Func(name); f != nil && f.Blocks != nil {
			return &Closure{Fn: f}
		}
	}
	return nil
}

func (in *Interp) installStubs8() {
	st := in.St
	S := in.Stubs
	delegate := func(osName, harnessName string) {
		S[osName] = func(in *Interp, a []Value) Value {
			f := in.harnessFunc(harnessName)
			if f == nil {
				abortf("unsupported: %s (no virtual file system %s in the harness)", osName, harnessName)
			}
			return in.callValue(f, a)
		}
	}
	delegate("os.Stat", "hOsStat")
	delegate("os.ReadFile", "hOsReadFile")
	delegate("os.UserHomeDir", "hOsUserHomeDir")
	delegate("os.Getenv", "hOsGetenv")
	S["os.Executable"] = func(in *Interp, a []Value) Value { return Tuple{Str{S: "/v/bin/gojq"}, Iface{}} }
	S["path/filepath.EvalSymlinks"] = func(in *Interp, a []Value) Value { return Tuple{a[0], Iface{}} }
	S["os.IsNotExist"] = func(in *Interp, a []Value) Value {
		e := a[0].(Iface)
		if e.T == nil {
			return st.F
		}
		// the harness signals absence with an error whose message ends in "no such file or directory"
		if sel := in.Prog.MethodSets.MethodSet(e.T).Lookup(nil, "Error"); sel != nil {
			if s, ok := in.callFunction(in.Prog.MethodValue(sel), []Value{e.V}).(Str); ok && s.B == nil {
				return st.BoolConst(strings.HasSuffix(s.S, "no such file or directory"))
			}
		}
		return st.F
	}
	S["os.Open"] = func(in *Interp, a []Value) Value {
		f := in.harnessFunc("hOsReadFile")
		if f == nil {
			abortf("unsupported: os.Open (no virtual file system in the harness)")
		}
		r := in.callValue(f, a).(Tuple)
		if e := r[1].(Iface); e.T != nil {
			return Tuple{Ptr{}, e}
		}
		content := string(in.concreteBytesOrConcretize(r[0], "file content"))
		return Tuple{in.newNative(&vfileHandle{content}), Iface{}}
	}
	S["(*os.File).Close"] = func(in *Interp, a []Value) Value { return Iface{} }
	// json.NewDecoder over a virtual file
	prev := S["encoding/json.NewDecoder"]
	S["encoding/json.NewDecoder"] = func(in *Interp, a []Value) Value {
		r := a[0].(Iface)
		if p, ok := r.V.(Ptr); ok && r.T != nil && r.T.String() == "*os.File" {
			if h, ok := in.natives[p.O].(*vfileHandle); ok {
				return in.newNative(&jsonDecModel{dec: json.NewDecoder(strings.NewReader(h.content)), src: h.content})
			}
		}
		return prev(in, a)
	}
	_ = smt.Bool
}
