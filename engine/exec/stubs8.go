package exec

import (
	runewidth "github.com/mattn/go-runewidth"
	"encoding/json"
	"errors"
	"fmt"
	"io"
	"strings"

	"gosym/smt"
)

// os / filepath: the environment is a virtual file system implemented by the harness in
// the package under test (functions hOsStat, hOsReadFile, hOsUserHomeDir); the stubs
// delegate to them. Without those functions a call into os is unsupported.

type vfileHandle struct {
	content string
	pos     int
}

func (in *Interp) harnessFunc(name string) *Closure {
	for _, pkg := range in.Prog.AllPackages() {
		if f := pkg.Func(name); f != nil && f.Blocks != nil {
			return &Closure{Fn: f}
		}
	}
	return nil
}

func (in *Interp) installStubs8() {
	st := in.St
	S := in.Stubs
	delegate := func(osName, harnessName string) {
		S[osName] = func(in *Interp, a []Value) Value {
			f := in.harnessFunc(harnessName)
			if f == nil {
				abortf("unsupported: %s (no virtual file system %s in the harness)", osName, harnessName)
			}
			return in.callValue(f, a)
		}
	}
	delegate("os.Stat", "hOsStat")
	delegate("os.ReadFile", "hOsReadFile")
	delegate("os.UserHomeDir", "hOsUserHomeDir")
	delegate("os.Getenv", "hOsGetenv")
	S["github.com/mattn/go-isatty.IsTerminal"] = func(in *Interp, a []Value) Value { return st.F }
	S["github.com/mattn/go-isatty.IsCygwinTerminal"] = func(in *Interp, a []Value) Value { return st.F }
	S["github.com/mattn/go-runewidth.StringWidth"] = func(in *Interp, a []Value) Value {
		// printable ASCII has width 1 per byte (decided symbolically); for anything else the
		// string is concretized and the real (trusted) library is run natively on it
		bs := in.bytesOf(a[0])
		for _, b := range bs {
			printable := st.And(st.Bin(smt.OpBvUle, st.BVConstI(0x20, 8), b), st.Bin(smt.OpBvUle, b, st.BVConstI(0x7e, 8)))
			if !in.Ctx.Branch(printable) {
				s := in.concretizeStr(a[0].(Str), "runewidth.StringWidth")
				return st.BVConstI(int64(runewidth.StringWidth(s)), 64)
			}
		}
		return st.BVConstI(int64(len(bs)), 64)
	}
	S["runtime.Version"] = func(in *Interp, a []Value) Value { return Str{S: "go"} }
	S["os.Environ"] = func(in *Interp, a []Value) Value { return SliceV{} }
	S["fmt.Fprintf"] = func(in *Interp, a []Value) Value {
		s := fmt.Sprintf(in.concStr(a[1]), in.fmtArgs(a[2])...)
		return in.writeTo(a[0].(Iface), s)
	}
	S["fmt.Fprintln"] = func(in *Interp, a []Value) Value {
		return in.writeTo(a[0].(Iface), fmt.Sprintln(in.fmtArgs(a[1])...))
	}
	S["os.Executable"] = func(in *Interp, a []Value) Value { return Tuple{Str{S: "/v/bin/gojq"}, Iface{}} }
	S["path/filepath.EvalSymlinks"] = func(in *Interp, a []Value) Value { return Tuple{a[0], Iface{}} }
	S["os.IsNotExist"] = func(in *Interp, a []Value) Value {
		e := a[0].(Iface)
		if e.T == nil {
			return st.F
		}
		// the harness signals absence with an error whose message ends in "no such file or directory"
		if sel := in.Prog.MethodSets.MethodSet(e.T).Lookup(nil, "Error"); sel != nil {
			if s, ok := in.callFunction(in.Prog.MethodValue(sel), []Value{e.V}).(Str); ok && s.B == nil {
				return st.BoolConst(strings.HasSuffix(s.S, "no such file or directory"))
			}
		}
		return st.F
	}
	S["os.Open"] = func(in *Interp, a []Value) Value {
		f := in.harnessFunc("hOsReadFile")
		if f == nil {
			abortf("unsupported: os.Open (no virtual file system in the harness)")
		}
		r := in.callValue(f, a).(Tuple)
		if e := r[1].(Iface); e.T != nil {
			return Tuple{Ptr{}, e}
		}
		content := string(in.concreteBytesOrConcretize(r[0], "file content"))
		return Tuple{in.newNative(&vfileHandle{content: content}), Iface{}}
	}
	S["(*os.File).Close"] = func(in *Interp, a []Value) Value { return Iface{} }
	S["(*os.File).Read"] = func(in *Interp, a []Value) Value {
		h, ok := in.nativeOf(a[0].(Ptr)).(*vfileHandle)
		if !ok {
			abortf("unsupported: Read on a real *os.File")
		}
		dst := a[1].(SliceV)
		if h.pos >= len(h.content) {
			if dst.Len == 0 {
				return Tuple{st.BVConstI(0, 64), Iface{}}
			}
			return Tuple{st.BVConstI(0, 64), in.ioEOF()}
		}
		n := copy(make([]byte, dst.Len), h.content[h.pos:])
		for i := 0; i < n; i++ {
			dst.Arr.Cells[dst.Off+i] = st.BVConstI(int64(h.content[h.pos+i]), 8)
		}
		h.pos += n
		return Tuple{st.BVConstI(int64(n), 64), Iface{}}
	}
	S["(*os.File).Seek"] = func(in *Interp, a []Value) Value {
		h, ok := in.nativeOf(a[0].(Ptr)).(*vfileHandle)
		if !ok {
			abortf("unsupported: Seek on a real *os.File")
		}
		off, whence := in.concInt(a[1], "seek offset"), in.concInt(a[2], "seek whence")
		switch whence {
		case 0:
			h.pos = off
		case 1:
			h.pos += off
		default:
			h.pos = len(h.content) + off
		}
		if h.pos < 0 {
			h.pos = 0
			return Tuple{st.BVConstI(0, 64), in.goError("seek: invalid argument")}
		}
		return Tuple{st.BVConstI(int64(h.pos), 64), Iface{}}
	}
	S["(*os.File).Fd"] = func(in *Interp, a []Value) Value { return st.BVConstI(3, 64) }
	// json.NewDecoder over a virtual file
	prev := S["encoding/json.NewDecoder"]
	S["encoding/json.NewDecoder"] = func(in *Interp, a []Value) Value {
		r := a[0].(Iface)
		if p, ok := r.V.(Ptr); ok && r.T != nil && r.T.String() == "*os.File" {
			if h, ok := in.natives[p.O].(*vfileHandle); ok {
				return in.newNative(&jsonDecModel{dec: json.NewDecoder(strings.NewReader(h.content)), src: h.content})
			}
		}
		if _, ok := r.V.(Ptr); ok && r.T != nil && r.T.String() == "*strings.Reader" {
			return prev(in, a)
		}
		// any other reader: the real decoder runs natively over an adapter whose Read calls
		// the reader's own (interpreted) Read method with a buffer of the same size, so the
		// decoder's read-ahead is exactly the real one (tee buffers see what they would see)
		return in.newNative(&jsonDecModel{dec: json.NewDecoder(&interpReader{in: in, r: r})})
	}
	_ = smt.Bool
}

// interpReader: a host io.Reader over an interpreted reader value.
type interpReader struct {
	in *Interp
	r  Iface
}

func (ir *interpReader) Read(p []byte) (int, error) {
	in := ir.in
	if ir.r.T == nil {
		in.panicf("nil io.Reader")
	}
	sel := in.Prog.MethodSets.MethodSet(ir.r.T).Lookup(nil, "Read")
	if sel == nil {
		abortf("unsupported: reader %v has no Read method", ir.r.T)
	}
	buf := in.byteSlice(make([]byte, len(p)))
	res := in.callFunction(in.Prog.MethodValue(sel), []Value{ir.r.V, buf}).(Tuple)
	n := in.concIntC(res[0])
	for i := 0; i < n; i++ {
		t := buf.Arr.Cells[i].(*smt.Term)
		if !t.IsConst() {
			t = in.Ctx.Concretize(t)
		}
		p[i] = byte(t.Val.Uint64())
	}
	if e := res[1].(Iface); e.T != nil {
		if in.sameValue(e, in.ioEOF()).IsTrue() {
			return n, io.EOF
		}
		msg := "read error"
		if sel := in.Prog.MethodSets.MethodSet(e.T).Lookup(nil, "Error"); sel != nil {
			if m, ok := in.callFunction(in.Prog.MethodValue(sel), []Value{e.V}).(Str); ok {
				msg = in.opaqueStr(m)
			}
		}
		return n, errors.New(msg)
	}
	return n, nil
}

// drainReader reads an io.Reader value to EOF through its interpreted Read method and
// returns the content (symbolic bytes are concretized).
func (in *Interp) drainReader(r Iface) string {
	if r.T == nil {
		in.panicf("nil io.Reader")
	}
	sel := in.Prog.MethodSets.MethodSet(r.T).Lookup(nil, "Read")
	if sel == nil {
		abortf("unsupported: reader %v has no Read method", r.T)
	}
	read := in.Prog.MethodValue(sel)
	var out []byte
	for rounds := 0; rounds < 10000; rounds++ {
		buf := in.byteSlice(make([]byte, 256))
		res := in.callFunction(read, []Value{r.V, buf}).(Tuple)
		n := in.concIntC(res[0])
		for i := 0; i < n; i++ {
			t := buf.Arr.Cells[i].(*smt.Term)
			if !t.IsConst() {
				t = in.Ctx.Concretize(t)
			}
			out = append(out, byte(t.Val.Uint64()))
		}
		if e := res[1].(Iface); e.T != nil {
			return string(out)
		}
		if n == 0 {
			rounds += 100
		}
	}
	abortf("unsupported: reader did not reach EOF")
	return ""
}

// writeTo calls w.Write(bytes of s) through the interpreted method of the writer.
func (in *Interp) writeTo(w Iface, s string) Value {
	if w.T == nil {
		in.panicf("nil io.Writer")
	}
	sel := in.Prog.MethodSets.MethodSet(w.T).Lookup(nil, "Write")
	if sel == nil {
		abortf("unsupported: writer %v has no Write method", w.T)
	}
	return in.callFunction(in.Prog.MethodValue(sel), []Value{w.V, in.byteSlice([]byte(s))})
}
