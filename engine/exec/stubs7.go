package exec

import (
	"time"

	"github.com/itchyny/timefmt-go"

	"gosym/smt"
)

// time: the calendar (package time) and strftime/strptime (timefmt-go) are trusted and
// run natively on concrete instants; a symbolic instant is concretized to a
// representative. A time.Time is carried in its own struct cells with a private
// encoding, UTC only: wall = nanoseconds, ext = seconds since 0001-01-01T00:00:00Z (so
// that the zero struct is Go's zero time), loc = nil. Every method gojq uses is stubbed;
// anything else on time.Time is unsupported.

const zeroTimeUnix = -62135596800

func (in *Interp) timeOf(v Value) time.Time {
	o := v.(*Obj)
	ns := in.concIntC(o.Cells[0])
	ext := o.Cells[1].(*smt.Term)
	if !ext.IsConst() {
		ext = in.Ctx.Concretize(ext)
		in.StubHits["concretized: time.Time instant"]++
	}
	return time.Unix(smt.Signed(ext.Val, 64).Int64()+zeroTimeUnix, int64(ns)).UTC()
}

func (in *Interp) timeVal(t time.Time, template Value) Value {
	o := copyVal(template).(*Obj)
	o.Cells[0] = in.St.BVConstU(uint64(t.Nanosecond()), 64)
	o.Cells[1] = in.St.BVConstI(t.Unix()-zeroTimeUnix, 64)
	o.Cells[2] = Ptr{}
	return o
}

func (in *Interp) zeroTime() Value {
	return in.zero(in.namedType("time", "Time"))
}

func (in *Interp) installStubs7() {
	st := in.St
	S := in.Stubs
	i64 := func(v int) Value { return st.BVConstI(int64(v), 64) }
	conc64 := func(in *Interp, v Value) int64 {
		t := v.(*smt.Term)
		if !t.IsConst() {
			t = in.Ctx.Concretize(t)
			in.StubHits["concretized: time argument"]++
		}
		return smt.Signed(t.Val, t.Sort.W).Int64()
	}
	S["time.Unix"] = func(in *Interp, a []Value) Value {
		return in.timeVal(time.Unix(conc64(in, a[0]), conc64(in, a[1])), in.zeroTime())
	}
	S["time.Now"] = func(in *Interp, a []Value) Value {
		in.StubHits["ambient: time.Now"]++
		if in.AmbientOn && !in.NowAllowed {
			m := in.Ctx.Model()
			panic(&Violation{Kind: "ambient", Msg: "time.Now read outside the now builtin, from " + in.where(), Model: m, Replay: in.Ctx.ReplayValues(m), Labels: append([]string(nil), in.Labels...)})
		}
		return in.timeVal(time.Unix(1700000000, 0), in.zeroTime())
	}
	S["time.Date"] = func(in *Interp, a []Value) Value {
		if p, ok := a[7].(Ptr); ok && p.O != nil {
			in.StubHits["time zone other than UTC treated as UTC"]++
		}
		t := time.Date(int(conc64(in, a[0])), time.Month(conc64(in, a[1])), int(conc64(in, a[2])), int(conc64(in, a[3])), int(conc64(in, a[4])), int(conc64(in, a[5])), int(conc64(in, a[6])), time.UTC)
		return in.timeVal(t, in.zeroTime())
	}
	S["(time.Time).In"] = func(in *Interp, a []Value) Value { return a[0] }
	S["(time.Time).UTC"] = func(in *Interp, a []Value) Value { return a[0] }
	S["(time.Time).Year"] = func(in *Interp, a []Value) Value { return i64(in.timeOf(a[0]).Year()) }
	S["(time.Time).Month"] = func(in *Interp, a []Value) Value { return i64(int(in.timeOf(a[0]).Month())) }
	S["(time.Time).Day"] = func(in *Interp, a []Value) Value { return i64(in.timeOf(a[0]).Day()) }
	S["(time.Time).Hour"] = func(in *Interp, a []Value) Value { return i64(in.timeOf(a[0]).Hour()) }
	S["(time.Time).Minute"] = func(in *Interp, a []Value) Value { return i64(in.timeOf(a[0]).Minute()) }
	S["(time.Time).Second"] = func(in *Interp, a []Value) Value { return i64(in.timeOf(a[0]).Second()) }
	S["(time.Time).Nanosecond"] = func(in *Interp, a []Value) Value { return i64(in.timeOf(a[0]).Nanosecond()) }
	S["(time.Time).Weekday"] = func(in *Interp, a []Value) Value { return i64(int(in.timeOf(a[0]).Weekday())) }
	S["(time.Time).YearDay"] = func(in *Interp, a []Value) Value { return i64(in.timeOf(a[0]).YearDay()) }
	S["(time.Time).Unix"] = func(in *Interp, a []Value) Value { return i64(int(in.timeOf(a[0]).Unix())) }
	S["(time.Time).Equal"] = func(in *Interp, a []Value) Value {
		return st.BoolConst(in.timeOf(a[0]).Equal(in.timeOf(a[1])))
	}
	S["github.com/itchyny/timefmt-go.Format"] = func(in *Interp, a []Value) Value {
		return Str{S: timefmt.Format(in.timeOf(a[0]), in.concretizeStr(a[1].(Str), "strftime format"))}
	}
	S["github.com/itchyny/timefmt-go.Parse"] = func(in *Interp, a []Value) Value {
		t, err := timefmt.Parse(in.concretizeStr(a[0].(Str), "strptime subject"), in.concretizeStr(a[1].(Str), "strptime format"))
		if err != nil {
			return Tuple{in.zeroTime(), in.goError(err.Error())}
		}
		return Tuple{in.timeVal(t.UTC(), in.zeroTime()), Iface{}}
	}
}
