package exec

import (
	"fmt"
	"go/constant"
	"go/token"
	"go/types"
	"math/big"
	"regexp"
	"strings"
	"sync"

	"golang.org/x/tools/go/ssa"

	"gosym/smt"
)

type Stub func(in *Interp, args []Value) Value

type Interp struct {
	Prog    *ssa.Program
	Ctx     *Ctx
	St      *smt.Store
	globals map[*ssa.Global]*Obj
	inited  map[*ssa.Package]bool
	Fuel    int
	Steps   int
	Stubs   map[string]Stub
	depth   int
	Funcs   map[*ssa.Function]int // instructions executed per function
	Trace   bool
	curFrame []*frame
	allowInit *ssa.Package
	Tmpl *Interp // template interpreter holding initialised globals (concrete), or nil
	memo map[any]any
	MonitorOn bool
	AmbientOn bool
	NowAllowed bool
	consts map[*ssa.Const]Value
	natives map[*Obj]any
	onces   map[*Obj]bool
	pools   map[*Obj][]Value
	syncMaps map[*Obj]*syncMapModel
	memoResults map[string]Value
	MonitorMode int // 1: value-changing writes (C05); 2: any write (C06)
	ids map[any]int64
	bigs     map[*Obj]*smt.Term
	builders map[*Obj]Str
	Intrinsics map[string]Stub
	Obligations, Discharged, Inconclusive int
	InconclusiveMsgs []string
	Reached  map[string]bool
	EnumResults map[string]bool
	AssertFilter *regexp.Regexp
	Params   map[string]int
	PanicsOK bool
	Labels   []string
	StubHits map[string]int
}

func NewInterp(prog *ssa.Program, ctx *Ctx) *Interp {
	in := &Interp{Prog: prog, Ctx: ctx, St: ctx.St, globals: map[*ssa.Global]*Obj{}, inited: map[*ssa.Package]bool{},
		Fuel: 50_000_000, Stubs: map[string]Stub{}, Funcs: map[*ssa.Function]int{}, bigs: map[*Obj]*smt.Term{}, builders: map[*Obj]Str{}, Reached: map[string]bool{}, StubHits: map[string]int{}}
	in.ids = map[any]int64{}
	in.installStubs()
	in.installStubs2()
	in.installStubs3()
	in.installStubs4()
	in.installStubs5()
	in.installStubs6()
	in.installStubs7()
	in.installStubs8()
	return in
}

type deferred struct {
	fn   Value
	args []Value
	call *ssa.CallCommon
}

type frame struct {
	fn        *ssa.Function
	info      *fnInfo
	regs      []Value
	block     *ssa.BasicBlock
	prev      *ssa.BasicBlock
	defers    []deferred
	result    Value
	panicking *TargetPanic
	recovered bool
}

type fnInfo struct {
	index map[ssa.Value]int
	n     int
}

var fnInfos sync.Map // *ssa.Function -> *fnInfo

func infoOf(fn *ssa.Function) *fnInfo {
	if v, ok := fnInfos.Load(fn); ok {
		return v.(*fnInfo)
	}
	fi := &fnInfo{index: map[ssa.Value]int{}}
	for _, p := range fn.Params {
		fi.index[p] = fi.n
		fi.n++
	}
	for _, p := range fn.FreeVars {
		fi.index[p] = fi.n
		fi.n++
	}
	for _, b := range fn.Blocks {
		for _, i := range b.Instrs {
			if v, ok := i.(ssa.Value); ok {
				fi.index[v] = fi.n
				fi.n++
			}
		}
	}
	if fn.Recover != nil {
		for _, i := range fn.Recover.Instrs {
			if v, ok := i.(ssa.Value); ok {
				if _, have := fi.index[v]; !have {
					fi.index[v] = fi.n
					fi.n++
				}
			}
		}
	}
	v, _ := fnInfos.LoadOrStore(fn, fi)
	return v.(*fnInfo)
}

func newFrame(fn *ssa.Function) *frame {
	fi := infoOf(fn)
	return &frame{fn: fn, info: fi, regs: make([]Value, fi.n)}
}

func (fr *frame) set(v ssa.Value, x Value) { fr.regs[fr.info.index[v]] = x }

// ---- types ----

func intInfo(t types.Type) (w int, signed bool, ok bool) {
	b, isB := t.Underlying().(*types.Basic)
	if !isB {
		return 0, false, false
	}
	switch b.Kind() {
	case types.Int, types.Int64, types.UntypedInt:
		return 64, true, true
	case types.Int8:
		return 8, true, true
	case types.Int16:
		return 16, true, true
	case types.Int32, types.UntypedRune:
		return 32, true, true
	case types.Uint, types.Uint64, types.Uintptr:
		return 64, false, true
	case types.Uint8:
		return 8, false, true
	case types.Uint16:
		return 16, false, true
	case types.Uint32:
		return 32, false, true
	}
	return 0, false, false
}

func isString(t types.Type) bool {
	b, ok := t.Underlying().(*types.Basic)
	return ok && b.Info()&types.IsString != 0
}

func isBool(t types.Type) bool {
	b, ok := t.Underlying().(*types.Basic)
	return ok && b.Info()&types.IsBoolean != 0
}

func (in *Interp) zero(t types.Type) Value {
	switch u := t.Underlying().(type) {
	case *types.Basic:
		if w, _, ok := intInfo(t); ok {
			return in.St.BVConstI(0, w)
		}
		if isBool(t) {
			return in.St.F
		}
		if isString(t) {
			return Str{}
		}
		if u.Kind() == types.UnsafePointer {
			return Ptr{}
		}
		if u.Kind() == types.Float64 || u.Kind() == types.Float32 || u.Kind() == types.UntypedFloat {
			return in.St.FPConst(0)
		}
		abortf("zero: unsupported basic type %v", t)
	case *types.Pointer:
		return Ptr{}
	case *types.Slice:
		return SliceV{}
	case *types.Map:
		return (*MapV)(nil)
	case *types.Chan:
		return (*ChanV)(nil)
	case *types.Interface:
		return Iface{}
	case *types.Signature:
		return (*Closure)(nil)
	case *types.Struct:
		o := &Obj{Cells: make([]Value, u.NumFields()), T: t}
		for i := range o.Cells {
			o.Cells[i] = in.zero(u.Field(i).Type())
		}
		return o
	case *types.Array:
		o := &Obj{Cells: make([]Value, int(u.Len())), T: t}
		if u.Len() > 0 {
			z := in.zero(u.Elem())
			for i := range o.Cells {
				o.Cells[i] = copyVal(z)
			}
		}
		return o
	case *types.Tuple:
		tu := make(Tuple, u.Len())
		for i := range tu {
			tu[i] = in.zero(u.At(i).Type())
		}
		return tu
	}
	abortf("zero: unsupported type %v", t)
	return nil
}


func copyVal(v Value) Value {
	if o, ok := v.(*Obj); ok && o != nil {
		n := &Obj{Cells: make([]Value, len(o.Cells)), T: o.T}
		for i, c := range o.Cells {
			n.Cells[i] = copyVal(c)
		}
		return n
	}
	return v
}

func (in *Interp) load(p Ptr) Value {
	if p.O == nil {
		in.panicf("invalid memory address or nil pointer dereference")
	}
	if p.Sym != nil {
		return in.selectCells(p.O.Cells[p.I:p.I+p.N], p.Sym)
	}
	return copyVal(p.O.Cells[p.I])
}

func (in *Interp) store(p Ptr, v Value) {
	if p.O == nil {
		in.panicf("invalid memory address or nil pointer dereference")
	}
	if p.O.Frozen && in.MonitorOn {
		if p.Sym != nil {
			in.sharedWrite("store (symbolic index)", nil, v)
		} else {
			in.sharedWrite("store", p.O.Cells[p.I], v)
		}
	}
	if p.Sym != nil {
		nv, ok := v.(*smt.Term)
		cells := p.O.Cells[p.I : p.I+p.N]
		if ok {
			allTerms := true
			for _, c := range cells {
				if _, isT := c.(*smt.Term); !isT {
					allTerms = false
				}
			}
			if allTerms {
				for i, c := range cells {
					cells[i] = in.St.Ite(in.St.Eq(p.Sym, in.St.BVConstI(int64(i), 64)), nv, c.(*smt.Term))
				}
				return
			}
		}
		assignCell(cells, in.Ctx.ConcretizeIndex(p.Sym, p.N), v)
		return
	}
	assignCell(p.O.Cells, p.I, v)
}

// assignCell stores v into cells[i]. Struct and array values are copied INTO the
// existing object (Go assigns aggregates in place, so pointers to their fields or
// elements taken earlier stay valid).
func assignCell(cells []Value, i int, v Value) {
	if src, ok := v.(*Obj); ok && src != nil {
		if dst, ok := cells[i].(*Obj); ok && dst != nil && dst != src && len(dst.Cells) == len(src.Cells) {
			for k := range src.Cells {
				assignCell(dst.Cells, k, src.Cells[k])
			}
			return
		}
	}
	cells[i] = copyVal(v)
}

func (in *Interp) panicf(format string, args ...any) {
	panic(&TargetPanic{Msg: fmt.Sprintf(format, args...), Where: in.where()})
}

// where describes the innermost interpreted frames (for reports).
func (in *Interp) where() string {
	w := ""
	for i := len(in.curFrame) - 1; i >= 0 && i >= len(in.curFrame)-4; i-- {
		if w != "" {
			w += " <- "
		}
		w += in.curFrame[i].fn.String()
	}
	return w
}

func (in *Interp) concStr(v Value) string {
	s := v.(Str)
	if s.B != nil {
		abortf("unsupported: symbolic string where a concrete one is required")
	}
	return s.S
}

// ---- constants ----

func (in *Interp) constVal(c *ssa.Const) Value {
	root := in
	if in.Tmpl != nil {
		root = in.Tmpl
	}
	if root.consts == nil {
		root.consts = map[*ssa.Const]Value{}
	}
	if v, ok := root.consts[c]; ok {
		return v
	}
	v := in.constVal0(c)
	switch v.(type) {
	case *smt.Term, Str:
		root.consts[c] = v
	}
	return v
}

func (in *Interp) constVal0(c *ssa.Const) Value {
	t := c.Type()
	if c.Value == nil {
		return in.zero(t)
	}
	if w, _, ok := intInfo(t); ok {
		bi, _ := new(big.Int).SetString(constant.ToInt(c.Value).ExactString(), 10)
		return in.St.BVConst(bi, w)
	}
	if isBool(t) {
		return in.St.BoolConst(constant.BoolVal(c.Value))
	}
	if isString(t) {
		return Str{S: constant.StringVal(c.Value)}
	}
	if b, ok := t.Underlying().(*types.Basic); ok && b.Info()&types.IsFloat != 0 {
		f, _ := constant.Float64Val(c.Value)
		return in.St.FPConst(f)
	}
	abortf("const: unsupported %v : %v", c, t)
	return nil
}

// ---- globals / init ----

func (in *Interp) global(g *ssa.Global) Ptr {
	if o, ok := in.globals[g]; ok {
		return Ptr{O: o, I: 0}
	}
	if g.Pkg != nil && !in.inited[g.Pkg] && g.Name() != "init$guard" {
		in.ensureInit(g.Pkg)
		if o, ok := in.globals[g]; ok {
			return Ptr{O: o, I: 0}
		}
	}
	o := &Obj{Cells: []Value{in.zero(g.Type().(*types.Pointer).Elem())}, T: g.Type()}
	in.globals[g] = o
	return Ptr{O: o, I: 0}
}

var initDeny = map[string]bool{"runtime": true, "reflect": true, "os": true, "syscall": true, "sync": true, "time": true,
	"regexp": true, "regexp/syntax": true, "encoding/json": true, "fmt": true, "internal/reflectlite": true, "errors": true,
	"unsafe": true, "sync/atomic": true, "internal/cpu": true, "internal/bytealg": true, "math": true, "math/big": true,
	"math/rand": true, "math/rand/v2": true, "os/signal": true, "net": true, "io/fs": true, "os/exec": true, "os/user": true,
	"github.com/itchyny/go-yaml": true, "github.com/mattn/go-isatty": true, "github.com/mattn/go-runewidth": true,
	"github.com/itchyny/timefmt-go": true, "log": true, "flag": true, "testing": true, "encoding/binary": true,
	"crypto/rand": true, "hash/crc32": true, "internal/godebug": true, "internal/poll": true, "internal/testlog": true}

func (in *Interp) ensureInit(p *ssa.Package) {
	if in.inited[p] {
		return
	}
	if in.Tmpl != nil {
		// initialise once in the template, then deep-copy this package's globals
		in.Tmpl.ensureInit(p)
		in.inited[p] = true
		if in.memo == nil {
			in.memo = map[any]any{}
		}
		for g, o := range in.Tmpl.globals {
			if g.Pkg == p {
				if _, have := in.globals[g]; !have {
					in.globals[g] = in.deepCopy(o).(*Obj)
					if in.MonitorOn && p.Pkg.Path() == "github.com/itchyny/gojq" {
						in.freeze(in.globals[g], map[any]bool{})
					}
				}
			}
		}
		return
	}
	in.inited[p] = true
	if initDeny[p.Pkg.Path()] || strings.HasPrefix(p.Pkg.Path(), "internal/") {
		return
	}
	if f := p.Func("init"); f != nil && f.Blocks != nil {
		in.allowInit = p
		func() {
			defer func() {
				if r := recover(); r != nil {
					// an init that cannot be interpreted leaves the package partially
					// initialised; recorded, and visible as a stub hit in the evidence
					in.StubHits["package init not fully interpreted: "+p.Pkg.Path()]++
					in.allowInit = nil
				}
			}()
			in.callFunction(f, nil)
		}()
	}
}

// ---- calls ----

// callMemo: harness functions named vmemo_* are pure set-up steps on concrete
// arguments (Parse/Compile of a fixed program); they run once per worker in the
// template interpreter and their result graph is deep-copied into each path.
func (in *Interp) callMemo(fn *ssa.Function, args []Value) (Value, bool) {
	if in.Tmpl == nil {
		return nil, false
	}
	key := fn.Name()
	for _, a := range args {
		switch a := a.(type) {
		case Str:
			if a.B != nil {
				return nil, false
			}
			key += "|s:" + a.S
		case *smt.Term:
			if !a.IsConst() {
				return nil, false
			}
			key += "|t:" + a.Val.String()
		default:
			return nil, false
		}
	}
	t := in.Tmpl
	if t.memoResults == nil {
		t.memoResults = map[string]Value{}
	}
	res, ok := t.memoResults[key]
	if !ok {
		t.ensureInit(fn.Pkg)
		t.Fuel = in.Fuel
		t.Steps = 0
		res = t.callFunctionBody(fn, args)
		if len(t.memoResults) >= 1024 {
			// bounded: the exploration order keeps one program's entries together, so
			// dropping everything now and then costs a few recomputations only
			t.memoResults = map[string]Value{}
		}
		t.memoResults[key] = res
		in.Steps += t.Steps
		for f, n := range t.Funcs {
			in.Funcs[f] += n
			delete(t.Funcs, f)
		}
	}
	in.ensureInit(fn.Pkg)
	if in.memo == nil {
		in.memo = map[any]any{}
	}
	return in.deepCopy(res), true
}

func (in *Interp) callFunction(fn *ssa.Function, args []Value) Value {
	if len(fn.Name()) > 6 && fn.Name()[:6] == "vmemo_" {
		if r, ok := in.callMemo(fn, args); ok {
			return r
		}
	}
	r := in.callFunctionBody(fn, args)
	if in.EnumResults != nil && in.EnumResults[fn.Name()] {
		// make the (small-domain) integer results concrete by forking over their values
		switch x := r.(type) {
		case *smt.Term:
			if x.Sort.K == smt.KBV && !x.IsConst() {
				r = in.Ctx.EnumerateFork(x, 400)
			}
		case Tuple:
			for i, c := range x {
				if t, ok := c.(*smt.Term); ok && t.Sort.K == smt.KBV && !t.IsConst() {
					x[i] = in.Ctx.EnumerateFork(t, 400)
				}
			}
		}
	}
	return r
}

// ambientPkgs: calling into these packages is exercising ambient authority (C19).
var ambientPkgs = map[string]bool{"os": true, "syscall": true, "os/user": true, "os/exec": true, "net": true, "io/fs": true, "os/signal": true,
	"net/http": true, "internal/poll": true, "internal/syscall/unix": true, "path/filepath.EvalSymlinks": true}

// ambientGlobals: package-level variables that carry process state (C19).
var ambientGlobals = map[string]bool{"time.Local": true, "os.Args": true, "os.Stdin": true, "os.Stdout": true, "os.Stderr": true}

var hstubCache sync.Map // *ssa.Program -> map[string]*ssa.Function

// hstub: a harness may replace a function of the package under test by defining
// hStub_<name> with the same signature (used for the reflect-based flag parser).
func (in *Interp) hstub(fn *ssa.Function) *ssa.Function {
	if fn.Pkg == nil || fn.Signature.Recv() != nil || fn.Parent() != nil {
		return nil
	}
	var m map[string]*ssa.Function
	if v, ok := hstubCache.Load(in.Prog); ok {
		m = v.(map[string]*ssa.Function)
	} else {
		m = map[string]*ssa.Function{}
		for _, pkg := range in.Prog.AllPackages() {
			for name, mem := range pkg.Members {
				if f, ok := mem.(*ssa.Function); ok && strings.HasPrefix(name, "hStub_") {
					m[pkg.Pkg.Path()+"."+name[6:]] = f
				}
			}
		}
		hstubCache.Store(in.Prog, m)
	}
	return m[fn.Pkg.Pkg.Path()+"."+fn.Name()]
}

func (in *Interp) callFunctionBody(fn *ssa.Function, args []Value) Value {
	if h := in.hstub(fn); h != nil {
		in.StubHits["harness stub: "+fn.Name()]++
		fn = h
	}
	name := fn.String()
	if in.AmbientOn && fn.Pkg != nil && ambientPkgs[fn.Pkg.Pkg.Path()] {
		m := in.Ctx.Model()
		if m != nil {
			panic(&Violation{Kind: "ambient", Msg: "call into ambient-authority package: " + name + " from " + in.where(), Model: m,
				Replay: in.Ctx.ReplayValues(m), Labels: append([]string(nil), in.Labels...), Where: in.where()})
		}
	}
	if st, ok := in.Stubs[name]; ok {
		return st(in, args)
	}
	if st, ok := in.Intrinsics[fn.Name()]; ok && fn.Pkg != nil && fn.Signature.Recv() == nil {
		return st(in, args)
	}
	if fn.Pkg != nil && fn.Parent() == nil && fn.Signature.Recv() == nil && fn.Name() == "init" && fn == fn.Pkg.Func("init") {
		if in.allowInit != fn.Pkg {
			return nil // dependencies are initialised lazily on first global access
		}
		in.allowInit = nil
	}
	if fn.Blocks == nil {
		abortf("unsupported external function %s", name)
	}
	if recv := fn.Signature.Recv(); recv != nil {
		// types with a native model must not fall back to their (unsafe) source
		switch recv.Type().String() {
		case "time.Time", "*time.Time", "*time.Location":
			abortf("unsupported: %s has no native model", name)
		case "*strings.Builder", "*math/big.Int", "*regexp.Regexp", "*sync.Map", "*encoding/json.Decoder", "*sync.Once", "*sync.Pool":
			abortf("unsupported: %s has no native model", name)
		}
	}
	in.depth++
	if in.depth > 5000 {
		abortf("recursion depth limit")
	}
	defer func() { in.depth-- }()
	fr := newFrame(fn)
	for i := range fn.Params {
		fr.regs[i] = args[i]
	}
	return in.run(fr)
}

func (in *Interp) callValue(fv Value, args []Value) Value {
	cl, _ := fv.(*Closure)
	if cl == nil {
		in.panicf("call of nil function")
	}
	if cl.HasRecv {
		args = append([]Value{cl.Recv}, args...)
	}
	if cl.Native != nil {
		return cl.Native(in, args)
	}
	if len(cl.Bindings) == 0 {
		return in.callFunction(cl.Fn, args)
	}
	name := cl.Fn.String()
	if st, ok := in.Stubs[name]; ok {
		return st(in, args)
	}
	in.depth++
	if in.depth > 5000 {
		abortf("recursion depth limit")
	}
	defer func() { in.depth-- }()
	fr := newFrame(cl.Fn)
	for i := range cl.Fn.Params {
		fr.regs[i] = args[i]
	}
	np := len(cl.Fn.Params)
	for i := range cl.Fn.FreeVars {
		fr.regs[np+i] = cl.Bindings[i]
	}
	return in.run(fr)
}

func (in *Interp) get(fr *frame, v ssa.Value) Value {
	switch v := v.(type) {
	case *ssa.Const:
		return in.constVal(v)
	case *ssa.Global:
		if in.AmbientOn && v.Pkg != nil && ambientGlobals[v.Pkg.Pkg.Path()+"."+v.Name()] {
			if m := in.Ctx.Model(); m != nil {
				panic(&Violation{Kind: "ambient", Msg: "use of ambient process state: " + v.Pkg.Pkg.Path() + "." + v.Name() + " from " + in.where(), Model: m,
					Replay: in.Ctx.ReplayValues(m), Labels: append([]string(nil), in.Labels...), Where: in.where()})
			}
		}
		return in.global(v)
	case *ssa.Function:
		return &Closure{Fn: v}
	case *ssa.Builtin:
		return &Closure{Name: "builtin:" + v.Name()}
	}
	if i, ok := fr.info.index[v]; ok {
		return fr.regs[i]
	}
	abortf("get: no value for %s (%T) in %s", v.Name(), v, fr.fn)
	return nil
}

func (in *Interp) run(fr *frame) (result Value) {
	fr.block = fr.fn.Blocks[0]
	in.curFrame = append(in.curFrame, fr)
	depth := len(in.curFrame)
	defer func() { in.curFrame = in.curFrame[:depth-1] }()
	// panics in the target unwind through Go panics carrying *TargetPanic
	defer func() {
		if r := recover(); r != nil {
			tp, ok := r.(*TargetPanic)
			if !ok {
				panic(r)
			}
			fr.panicking = tp
			in.runDefers(fr)
			if fr.panicking != nil {
				panic(fr.panicking)
			}
			// recovered: return named results (Recover block), if any
			if fr.fn.Recover != nil {
				fr.block, fr.prev = fr.fn.Recover, nil
				result = in.runBlocks(fr)
			} else {
				result = fr.result
			}
		}
	}()
	return in.runBlocks(fr)
}

func (in *Interp) runDefers(fr *frame) {
	for len(fr.defers) > 0 {
		d := fr.defers[len(fr.defers)-1]
		fr.defers = fr.defers[:len(fr.defers)-1]
		in.doCall(d.fn, d.args, d.call)
	}
}

func (in *Interp) runBlocks(fr *frame) Value {
	var phiVals []Value
	phiN := 0
	for {
		phiVals = phiVals[:0]
		b := fr.block
	instrs:
		for _, instr := range b.Instrs {
			in.Steps++
			in.Funcs[fr.fn]++
			if in.Steps > in.Fuel {
				abortf("fuel exhausted (unwinding bound)")
			}
			if in.Trace {
				fmt.Printf("  %s: %v\n", fr.fn.Name(), instr)
			}
			switch instr := instr.(type) {
			case *ssa.Jump:
				fr.prev, fr.block = b, b.Succs[0]
				break instrs
			case *ssa.If:
				c := in.get(fr, instr.Cond).(*smt.Term)
				if in.Ctx.Branch(c) {
					fr.prev, fr.block = b, b.Succs[0]
				} else {
					fr.prev, fr.block = b, b.Succs[1]
				}
				break instrs
			case *ssa.Return:
				var res Value
				switch len(instr.Results) {
				case 0:
				case 1:
					res = in.get(fr, instr.Results[0])
				default:
					t := make(Tuple, len(instr.Results))
					for i, r := range instr.Results {
						t[i] = in.get(fr, r)
					}
					res = t
				}
				fr.result = res
				return res
			case *ssa.Panic:
				v := in.get(fr, instr.X)
				panic(&TargetPanic{V: v, Msg: "explicit panic: " + in.describe(v), Where: in.where()})
			case *ssa.RunDefers:
				in.runDefers(fr)
			case *ssa.Phi:
				// phis of a block are evaluated in parallel: read all, then write
				if len(phiVals) == 0 {
					for _, pi := range b.Instrs {
						ph, ok := pi.(*ssa.Phi)
						if !ok {
							break
						}
						for i, p := range b.Preds {
							if p == fr.prev {
								phiVals = append(phiVals, in.get(fr, ph.Edges[i]))
								break
							}
						}
					}
					phiN = 0
				}
				fr.set(instr, phiVals[phiN])
				phiN++
				if phiN == len(phiVals) {
					phiVals = phiVals[:0]
				}
			default:
				in.safeVisit(fr, instr)
			}
		}
	}
}

func (in *Interp) describe(v Value) string {
	switch v := v.(type) {
	case Iface:
		if v.T == nil {
			return "nil"
		}
		return fmt.Sprintf("%v(%s)", v.T, in.describe(v.V))
	case Str:
		if v.B == nil {
			return fmt.Sprintf("%q", v.S)
		}
		return "<symbolic string>"
	case *smt.Term:
		if v.IsConst() {
			return v.Val.String()
		}
		return "<sym>"
	}
	return fmt.Sprintf("%T", v)
}

func (in *Interp) visit(fr *frame, instr ssa.Instruction) {
	switch instr := instr.(type) {
	case *ssa.Alloc:
		o := &Obj{Cells: []Value{in.zero(instr.Type().(*types.Pointer).Elem())}, T: instr.Type()}
		fr.set(instr, Ptr{O: o, I: 0})
	case *ssa.Store:
		in.store(in.get(fr, instr.Addr).(Ptr), in.get(fr, instr.Val))
	case *ssa.UnOp:
		fr.set(instr, in.unop(fr, instr))
	case *ssa.BinOp:
		fr.set(instr, in.binop(instr.Op, in.get(fr, instr.X), in.get(fr, instr.Y), instr.X.Type()))
	case *ssa.FieldAddr:
		p := in.get(fr, instr.X).(Ptr)
		if p.O == nil {
			in.panicf("nil pointer dereference (field address)")
		}
		if p.Sym != nil {
			p = Ptr{O: p.O, I: p.I + in.Ctx.ConcretizeIndex(p.Sym, p.N)}
		}
		s := p.O.Cells[p.I].(*Obj)
		fr.set(instr, Ptr{O: s, I: instr.Field})
	case *ssa.Field:
		s := in.get(fr, instr.X).(*Obj)
		fr.set(instr, copyVal(s.Cells[instr.Field]))
	case *ssa.IndexAddr:
		fr.set(instr, in.indexAddr(in.get(fr, instr.X), in.get(fr, instr.Index).(*smt.Term), instr.Index.Type()))
	case *ssa.Index:
		x := in.get(fr, instr.X)
		idx := in.get(fr, instr.Index).(*smt.Term)
		switch x := x.(type) {
		case *Obj:
			fr.set(instr, in.selectCells(x.Cells, in.checkIndex(idx, instr.Index.Type(), len(x.Cells))))
		case Str:
			fr.set(instr, in.strIndex(x, idx, instr.Index.Type()))
		default:
			abortf("Index on %T", x)
		}
	case *ssa.Slice:
		fr.set(instr, in.slice(fr, instr))
	case *ssa.MakeSlice:
		n := in.concSmall(in.get(fr, instr.Len).(*smt.Term), "make len")
		c := in.concSmall(in.get(fr, instr.Cap).(*smt.Term), "make cap")
		if n < 0 || c < n {
			in.panicf("makeslice: len/cap out of range")
		}
		if c > 1<<22 {
			abortf("makeslice too large: %d", c)
		}
		et := instr.Type().Underlying().(*types.Slice).Elem()
		arr := &Obj{Cells: make([]Value, c), T: et}
		z := in.zero(et)
		for i := range arr.Cells {
			arr.Cells[i] = copyVal(z)
		}
		fr.set(instr, SliceV{arr, 0, n, c})
	case *ssa.MakeMap:
		mt := instr.Type().Underlying().(*types.Map)
		fr.set(instr, &MapV{KT: mt.Key(), VT: mt.Elem()})
	case *ssa.MapUpdate:
		m := in.get(fr, instr.Map).(*MapV)
		if m == nil {
			in.panicf("assignment to entry in nil map")
		}
		in.mapSet(m, in.get(fr, instr.Key), in.get(fr, instr.Value))
	case *ssa.Lookup:
		x := in.get(fr, instr.X)
		if s, ok := x.(Str); ok {
			fr.set(instr, in.strIndex(s, in.get(fr, instr.Index).(*smt.Term), instr.Index.Type()))
			return
		}
		m := x.(*MapV)
		v, ok := in.mapGet(m, in.get(fr, instr.Index))
		if !ok {
			v = in.zero(instr.X.Type().Underlying().(*types.Map).Elem())
		}
		if instr.CommaOk {
			fr.set(instr, Tuple{copyVal(v), in.St.BoolConst(ok)})
		} else {
			fr.set(instr, copyVal(v))
		}
	case *ssa.MakeInterface:
		fr.set(instr, Iface{T: instr.X.Type(), V: copyVal(in.get(fr, instr.X))})
	case *ssa.MakeClosure:
		b := make([]Value, len(instr.Bindings))
		for i, x := range instr.Bindings {
			b[i] = in.get(fr, x)
		}
		fr.set(instr, &Closure{Fn: instr.Fn.(*ssa.Function), Bindings: b})
	case *ssa.TypeAssert:
		fr.set(instr, in.typeAssert(instr, in.get(fr, instr.X).(Iface)))
	case *ssa.ChangeInterface:
		fr.set(instr, in.get(fr, instr.X))
	case *ssa.ChangeType:
		fr.set(instr, in.get(fr, instr.X))
	case *ssa.Convert:
		fr.set(instr, in.convert(in.get(fr, instr.X), instr.X.Type(), instr.Type()))
	case *ssa.Extract:
		fr.set(instr, in.get(fr, instr.Tuple).(Tuple)[instr.Index])
	case *ssa.Call:
		fr.set(instr, in.call(fr, instr.Common()))
	case *ssa.Defer:
		fn, args := in.prepareCall(fr, instr.Common())
		fr.defers = append(fr.defers, deferred{fn, args, instr.Common()})
	case *ssa.Range:
		fr.set(instr, in.rangeIter(in.get(fr, instr.X)))
	case *ssa.Next:
		fr.set(instr, in.next(in.get(fr, instr.Iter).(*iterV), instr))
	case *ssa.MakeChan:
		fr.set(instr, &ChanV{})
	case *ssa.Select:
		if instr.Blocking {
			abortf("blocking select not supported")
		}
		idx := -1
		for i, stt := range instr.States {
			ch := in.get(fr, stt.Chan).(*ChanV)
			if ch != nil && stt.Dir == types.RecvOnly && (ch.Closed || len(ch.Buf) > 0) {
				idx = i
				break
			}
		}
		tup := Tuple{in.St.BVConstI(int64(idx), 64), in.St.BoolConst(false)}
		for _, stt := range instr.States {
			if stt.Dir == types.RecvOnly {
				tup = append(tup, in.zero(stt.Chan.Type().Underlying().(*types.Chan).Elem()))
			}
		}
		fr.set(instr, tup)
	case *ssa.DebugRef:
	default:
		abortf("unsupported instruction %T: %v", instr, instr)
	}
}

func (in *Interp) concInt(v Value, what string) int {
	t := v.(*smt.Term)
	if !t.IsConst() {
		abortf("symbolic %s not supported", what)
	}
	return int(smt.Signed(t.Val, t.Sort.W).Int64())
}

// widenIdx brings an index to 64 bits according to its signedness.
func (in *Interp) widenIdx(idx *smt.Term, it types.Type) *smt.Term {
	_, signed, _ := intInfo(it)
	return in.St.Resize(idx, 64, signed)
}

// checkIndex forks on the out-of-range panic; returns the widened index.
func (in *Interp) checkIndex(idx *smt.Term, it types.Type, n int) *smt.Term {
	x := in.widenIdx(idx, it)
	inRange := in.St.And(in.St.Bin(smt.OpBvSle, in.St.BVConstI(0, 64), x), in.St.Bin(smt.OpBvSlt, x, in.St.BVConstI(int64(n), 64)))
	if !in.Ctx.Branch(inRange) {
		in.panicf("index out of range [%s] with length %d", in.describe(idx), n)
	}
	return x
}

// boundIndex checks 0 <= idx < n (forking on the panic) and concretizes idx.
func (in *Interp) boundIndex(idx *smt.Term, it types.Type, n int) int {
	x := in.checkIndex(idx, it, n)
	return in.Ctx.ConcretizeIndex(x, n)
}

// selectCells reads cells[off+idx] for a symbolic idx as an ite-chain when all
// cells are scalar terms; otherwise concretizes.
func (in *Interp) selectCells(cells []Value, idx *smt.Term) Value {
	if idx.IsConst() {
		return copyVal(cells[idx.Val.Int64()])
	}
	var so smt.Sort
	for i, c := range cells {
		t, ok := c.(*smt.Term)
		if !ok || i > 0 && t.Sort != so {
			return copyVal(cells[in.Ctx.ConcretizeIndex(idx, len(cells))])
		}
		so = t.Sort
	}
	if len(cells) >= 16 && so.K == smt.KBV {
		allConst := true
		vals := make([]*big.Int, len(cells))
		for i, c := range cells {
			t := c.(*smt.Term)
			if !t.IsConst() {
				allConst = false
				break
			}
			vals[i] = t.Val
		}
		if allConst {
			return in.St.Select(vals, so.W, idx)
		}
	}
	res := cells[len(cells)-1].(*smt.Term)
	for i := len(cells) - 2; i >= 0; i-- {
		res = in.St.Ite(in.St.Eq(idx, in.St.BVConstI(int64(i), 64)), cells[i].(*smt.Term), res)
	}
	return res
}

func (in *Interp) indexAddr(x Value, idx *smt.Term, it types.Type) Ptr {
	switch x := x.(type) {
	case SliceV:
		w := in.checkIndex(idx, it, x.Len)
		if !w.IsConst() {
			return Ptr{O: x.Arr, I: x.Off, N: x.Len, Sym: w}
		}
		return Ptr{O: x.Arr, I: x.Off + int(w.Val.Int64())}
	case Ptr: // pointer to array
		if x.O == nil {
			in.panicf("nil pointer dereference (index address)")
		}
		arr := x.O.Cells[x.I].(*Obj)
		w := in.checkIndex(idx, it, len(arr.Cells))
		if !w.IsConst() {
			return Ptr{O: arr, I: 0, N: len(arr.Cells), Sym: w}
		}
		return Ptr{O: arr, I: int(w.Val.Int64())}
	}
	abortf("IndexAddr on %T", x)
	return Ptr{}
}

func (in *Interp) strByte(s Str, i int) *smt.Term {
	if s.B != nil {
		return s.B[i]
	}
	return in.St.BVConstI(int64(s.S[i]), 8)
}

func (in *Interp) strIndex(s Str, idx *smt.Term, it types.Type) Value {
	x := in.checkIndex(idx, it, s.Len())
	if x.IsConst() {
		return in.strByte(s, int(x.Val.Int64()))
	}
	cells := make([]Value, s.Len())
	for i := range cells {
		cells[i] = in.strByte(s, i)
	}
	return in.selectCells(cells, x)
}

func (in *Interp) slice(fr *frame, instr *ssa.Slice) Value {
	x := in.get(fr, instr.X)
	bound := func(v ssa.Value, def int) (int, bool) {
		if v == nil {
			return def, false
		}
		t := in.get(fr, v).(*smt.Term)
		if !t.IsConst() {
			// concretize over the (small) feasible range
			return -1, true
		}
		return int(smt.Signed(t.Val, t.Sort.W).Int64()), true
	}
	conc := func(v ssa.Value, def, max int) int {
		k, given := bound(v, def)
		if !given || k >= 0 || in.get(fr, v).(*smt.Term).IsConst() {
			return k
		}
		t := in.get(fr, v).(*smt.Term)
		// out of range -> panic fork
		ok := in.St.And(in.St.Bin(smt.OpBvSle, in.St.BVConstI(0, t.Sort.W), t), in.St.Bin(smt.OpBvSle, t, in.St.BVConstI(int64(max), t.Sort.W)))
		if !in.Ctx.Branch(ok) {
			in.panicf("slice bounds out of range")
		}
		return in.Ctx.ConcretizeIndex(t, max+1)
	}
	switch x := x.(type) {
	case Str:
		n := x.Len()
		lo := conc(instr.Low, 0, n)
		hi := conc(instr.High, n, n)
		if lo < 0 || hi > n || lo > hi {
			in.panicf("slice bounds out of range [%d:%d] with length %d", lo, hi, n)
		}
		if x.B != nil {
			return Str{B: x.B[lo:hi:hi]}
		}
		return Str{S: x.S[lo:hi]}
	case SliceV:
		lo := conc(instr.Low, 0, x.Cap)
		hi := conc(instr.High, x.Len, x.Cap)
		mx := conc(instr.Max, x.Cap, x.Cap)
		if lo < 0 || hi > mx || lo > hi || mx > x.Cap {
			in.panicf("slice bounds out of range [%d:%d:%d] with capacity %d", lo, hi, mx, x.Cap)
		}
		if x.Arr == nil {
			return SliceV{}
		}
		return SliceV{x.Arr, x.Off + lo, hi - lo, mx - lo}
	case Ptr: // *array
		if x.O == nil {
			in.panicf("nil pointer dereference (slice of array pointer)")
		}
		arr := x.O.Cells[x.I].(*Obj)
		n := len(arr.Cells)
		lo := conc(instr.Low, 0, n)
		hi := conc(instr.High, n, n)
		mx := conc(instr.Max, n, n)
		if lo < 0 || hi > mx || lo > hi || mx > n {
			in.panicf("slice bounds out of range")
		}
		return SliceV{arr, lo, hi - lo, mx - lo}
	}
	abortf("Slice on %T", x)
	return nil
}

func (in *Interp) typeAssert(instr *ssa.TypeAssert, x Iface) Value {
	ok := false
	if x.T != nil {
		if types.IsInterface(instr.AssertedType) {
			ok = types.AssertableTo(instr.AssertedType.Underlying().(*types.Interface), x.T) && in.implements(x.T, instr.AssertedType.Underlying().(*types.Interface))
		} else {
			ok = types.Identical(x.T, instr.AssertedType)
		}
	}
	var v Value
	if ok {
		if types.IsInterface(instr.AssertedType) {
			v = x
		} else {
			v = x.V
		}
	} else {
		v = in.zero(instr.AssertedType)
	}
	if instr.CommaOk {
		return Tuple{v, in.St.BoolConst(ok)}
	}
	if !ok {
		in.panicf("interface conversion: %v is not %v", x.T, instr.AssertedType)
	}
	return v
}

func (in *Interp) implements(t types.Type, iface *types.Interface) bool {
	return types.Implements(t, iface)
}

// ---- calls ----

func (in *Interp) prepareCall(fr *frame, c *ssa.CallCommon) (Value, []Value) {
	var args []Value
	var fn Value
	if c.IsInvoke() {
		recv := in.get(fr, c.Value).(Iface)
		if recv.T == nil {
			in.panicf("method call on nil interface %s", c.Method.Name())
		}
		m := in.Prog.LookupMethod(recv.T, c.Method.Pkg(), c.Method.Name())
		if m == nil {
			abortf("method %s not found on %v", c.Method.Name(), recv.T)
		}
		fn = &Closure{Fn: m}
		args = append(args, recv.V)
	} else {
		fn = in.get(fr, c.Value)
	}
	for _, a := range c.Args {
		args = append(args, in.get(fr, a))
	}
	return fn, args
}

func (in *Interp) call(fr *frame, c *ssa.CallCommon) Value {
	fn, args := in.prepareCall(fr, c)
	return in.doCall(fn, args, c)
}

func (in *Interp) doCall(fn Value, args []Value, c *ssa.CallCommon) Value {
	if cl, ok := fn.(*Closure); ok && cl != nil && strings.HasPrefix(cl.Name, "builtin:") {
		return in.builtin(cl.Name[8:], args, c)
	}
	return in.callValue(fn, args)
}

func (in *Interp) posOf(instr ssa.Instruction) token.Position {
	return in.Prog.Fset.Position(instr.Pos())
}

// Run executes a harness function (no arguments) after initialising its package.
func (in *Interp) Run(fn *ssa.Function) {
	in.ensureInit(fn.Pkg)
	in.callFunction(fn, nil)
}

func (in *Interp) safeVisit(fr *frame, instr ssa.Instruction) {
	defer func() {
		if r := recover(); r != nil {
			switch r := r.(type) {
			case *Abort:
				if !strings.Contains(r.Reason, " @ ") && r.Reason != "assumption false" {
					r.Reason += fmt.Sprintf(" @ %v in %s: %v", in.Prog.Fset.Position(instr.Pos()), fr.fn, instr)
				}
				panic(r)
			case *TargetPanic, *Violation:
				panic(r)
			}
			panic(&Abort{fmt.Sprintf("internal error at %v in %s: %v: %v", in.Prog.Fset.Position(instr.Pos()), fr.fn, instr, r)})
		}
	}()
	in.visit(fr, instr)
}

// sharedWrite is called for every write whose destination existed before the run
// under test (frozen). Mode 2 (C06): any write is a violation. Mode 1 (C05): only a
// write that can change the stored value is a violation (decided by the solver).
func (in *Interp) sharedWrite(kind string, old, nv Value) {
	if !in.MonitorOn {
		return
	}
	if in.MonitorMode == 1 {
		same := in.sameValue(old, nv)
		if same.IsTrue() {
			return
		}
		if r, _ := in.Ctx.Prove(same); r == smt.Unsat {
			return
		}
	}
	m := in.Ctx.Model()
	if m == nil {
		abortf("monitor: write to shared object on a path whose condition could not be modelled")
	}
	panic(&Violation{Kind: "monitor", Msg: "write to pre-existing (shared) memory: " + kind + " in " + in.where(), Model: m,
		Replay: in.Ctx.ReplayValues(m), Labels: append([]string(nil), in.Labels...), Where: in.where()})
}

// sameValue: a term that is true when storing nv over old leaves the memory unchanged.
func (in *Interp) sameValue(old, nv Value) (res *smt.Term) {
	defer func() {
		if r := recover(); r != nil {
			if _, isAbort := r.(*Abort); isAbort {
				res = in.St.F
				return
			}
			if _, isTP := r.(*TargetPanic); isTP {
				res = in.St.F
				return
			}
			panic(r)
		}
	}()
	if old == nil || nv == nil {
		return in.St.BoolConst(old == nil && nv == nil)
	}
	switch o := old.(type) {
	case SliceV:
		n, ok := nv.(SliceV)
		return in.St.BoolConst(ok && o == n)
	case *MapV:
		n, ok := nv.(*MapV)
		return in.St.BoolConst(ok && o == n)
	case *Closure:
		n, ok := nv.(*Closure)
		return in.St.BoolConst(ok && o == n)
	case Iface:
		n, ok := nv.(Iface)
		if !ok {
			return in.St.F
		}
		if o.T == nil || n.T == nil {
			return in.St.BoolConst(o.T == nil && n.T == nil)
		}
		if !types.Identical(o.T, n.T) {
			return in.St.F
		}
		return in.sameValue(o.V, n.V)
	case *Obj:
		n, ok := nv.(*Obj)
		if !ok || len(n.Cells) != len(o.Cells) {
			return in.St.F
		}
		r := in.St.T
		for i := range o.Cells {
			r = in.St.And(r, in.sameValue(o.Cells[i], n.Cells[i]))
		}
		return r
	case Ptr:
		n, ok := nv.(Ptr)
		return in.St.BoolConst(ok && o == n)
	}
	return in.eq(old, nv)
}

// freeze marks every object reachable from v as shared.
func (in *Interp) freeze(v Value, seen map[any]bool) {
	switch v := v.(type) {
	case *Obj:
		if v == nil || seen[v] {
			return
		}
		seen[v] = true
		v.Frozen = true
		for _, c := range v.Cells {
			in.freeze(c, seen)
		}
	case Ptr:
		if v.O != nil {
			in.freeze(v.O, seen)
		}
	case SliceV:
		if v.Arr != nil {
			in.freeze(v.Arr, seen)
		}
	case *MapV:
		if v == nil || seen[v] {
			return
		}
		seen[v] = true
		v.Frozen = true
		for i := range v.Keys {
			in.freeze(v.Keys[i], seen)
			in.freeze(v.Vals[i], seen)
		}
	case Iface:
		in.freeze(v.V, seen)
	case *Closure:
		if v != nil {
			for _, b := range v.Bindings {
				in.freeze(b, seen)
			}
			if v.HasRecv {
				in.freeze(v.Recv, seen)
			}
		}
	case Tuple:
		for _, c := range v {
			in.freeze(c, seen)
		}
	}
}

// deepCopy clones a value graph preserving aliasing (memoised per interpreter).
func (in *Interp) deepCopy(v Value) Value {
	switch v := v.(type) {
	case *Obj:
		if v == nil {
			return v
		}
		if c, ok := in.memo[v]; ok {
			return c
		}
		n := &Obj{Cells: make([]Value, len(v.Cells)), T: v.T}
		in.memo[v] = n
		for i, c := range v.Cells {
			n.Cells[i] = in.deepCopy(c)
		}
		if in.Tmpl != nil {
			if b, ok := in.Tmpl.bigs[v]; ok {
				in.bigs[n] = b
			}
			if b, ok := in.Tmpl.builders[v]; ok {
				in.builders[n] = b
			}
		}
		return n
	case Ptr:
		if v.O == nil {
			return v
		}
		return Ptr{O: in.deepCopy(v.O).(*Obj), I: v.I, N: v.N, Sym: v.Sym}
	case SliceV:
		if v.Arr == nil {
			return v
		}
		return SliceV{in.deepCopy(v.Arr).(*Obj), v.Off, v.Len, v.Cap}
	case *MapV:
		if v == nil {
			return v
		}
		if c, ok := in.memo[v]; ok {
			return c
		}
		n := &MapV{KT: v.KT, VT: v.VT, Keys: make([]Value, len(v.Keys)), Vals: make([]Value, len(v.Vals))}
		in.memo[v] = n
		for i := range v.Keys {
			n.Keys[i] = in.deepCopy(v.Keys[i])
			n.Vals[i] = in.deepCopy(v.Vals[i])
		}
		return n
	case Iface:
		return Iface{T: v.T, V: in.deepCopy(v.V)}
	case *Closure:
		if v == nil || len(v.Bindings) == 0 && !v.HasRecv {
			return v
		}
		if c, ok := in.memo[v]; ok {
			return c
		}
		n := &Closure{Fn: v.Fn, Native: v.Native, Name: v.Name, HasRecv: v.HasRecv}
		in.memo[v] = n
		n.Bindings = make([]Value, len(v.Bindings))
		for i, b := range v.Bindings {
			n.Bindings[i] = in.deepCopy(b)
		}
		n.Recv = in.deepCopy(v.Recv)
		return n
	case Tuple:
		n := make(Tuple, len(v))
		for i, c := range v {
			n[i] = in.deepCopy(c)
		}
		return n
	}
	return v
}

// concSmall concretizes a (possibly symbolic) size by forking over 0..64; larger
// or negative symbolic sizes end the path (negative concrete sizes are returned
// so that the caller raises the Go panic).
func (in *Interp) concSmall(t *smt.Term, what string) int {
	if t.IsConst() {
		return int(smt.Signed(t.Val, t.Sort.W).Int64())
	}
	st := in.St
	w := t.Sort.W
	if in.Ctx.Branch(st.Bin(smt.OpBvSlt, t, st.BVConstI(0, w))) {
		return -1
	}
	if !in.Ctx.Branch(st.Bin(smt.OpBvSle, t, st.BVConstI(64, w))) {
		abortf("symbolic %s larger than the concretization bound 64", what)
	}
	return in.Ctx.ConcretizeIndex(t, 65)
}
