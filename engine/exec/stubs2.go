package exec

import (
	"go/types"
	"math"
	"strconv"

	"gosym/smt"
)

type reflectV struct{ V Iface }

func (in *Interp) objID(o any) int64 {
	if id, ok := in.ids[o]; ok {
		return id
	}
	id := int64(len(in.ids)+1) << 24
	in.ids[o] = id
	return id
}

func (in *Interp) installStubs2() {
	st := in.St
	S := in.Stubs
	S["math.Abs"] = func(in *Interp, a []Value) Value { return st.FpUn(smt.OpFpAbs, a[0].(*smt.Term), "") }
	S["math.Floor"] = func(in *Interp, a []Value) Value { return st.FpUn(smt.OpFpRTI, a[0].(*smt.Term), "RTN") }
	S["math.Ceil"] = func(in *Interp, a []Value) Value { return st.FpUn(smt.OpFpRTI, a[0].(*smt.Term), "RTP") }
	S["math.Trunc"] = func(in *Interp, a []Value) Value { return st.FpUn(smt.OpFpRTI, a[0].(*smt.Term), "RTZ") }
	S["math.IsNaN"] = func(in *Interp, a []Value) Value { return st.FpUn(smt.OpFpIsNaN, a[0].(*smt.Term), "") }
	S["math.NaN"] = func(in *Interp, a []Value) Value { return st.FPConst(math.NaN()) }
	S["math.Inf"] = func(in *Interp, a []Value) Value {
		if in.Ctx.Branch(st.Bin(smt.OpBvSle, st.BVConstI(0, 64), a[0].(*smt.Term))) {
			return st.FPConst(math.Inf(1))
		}
		return st.FPConst(math.Inf(-1))
	}
	S["math.IsInf"] = func(in *Interp, a []Value) Value {
		x, sg := a[0].(*smt.Term), a[1].(*smt.Term)
		inf := st.FpUn(smt.OpFpIsInf, x, "")
		pos := st.FpBin(smt.OpFpLt, st.FPConst(0), x)
		z := st.BVConstI(0, 64)
		return st.And(inf, st.Or(st.Eq(sg, z), st.Ite(st.Bin(smt.OpBvSlt, z, sg), pos, st.Not(pos))))
	}
	S["math.Float64bits"] = func(in *Interp, a []Value) Value { return st.FpToBits(a[0].(*smt.Term)) }
	S["reflect.ValueOf"] = func(in *Interp, a []Value) Value { return reflectV{a[0].(Iface)} }
	S["(reflect.Value).Pointer"] = func(in *Interp, a []Value) Value {
		switch v := a[0].(reflectV).V.V.(type) {
		case SliceV:
			if v.Arr == nil {
				return st.BVConstI(0, 64)
			}
			return st.BVConstI(in.objID(v.Arr)+int64(v.Off)*16, 64)
		case *MapV:
			if v == nil {
				return st.BVConstI(0, 64)
			}
			return st.BVConstI(in.objID(v), 64)
		case Ptr:
			return st.BVConstI(in.objID(v.O)+int64(v.I)*16, 64)
		}
		abortf("reflect.Value.Pointer on %T", a[0].(reflectV).V.V)
		return nil
	}
	S["(reflect.Value).Len"] = func(in *Interp, a []Value) Value {
		switch v := a[0].(reflectV).V.V.(type) {
		case SliceV:
			return st.BVConstI(int64(v.Len), 64)
		case *MapV:
			if v == nil {
				return st.BVConstI(0, 64)
			}
			return st.BVConstI(int64(len(v.Keys)), 64)
		case Str:
			return st.BVConstI(int64(v.Len()), 64)
		}
		abortf("reflect.Value.Len on %T", a[0].(reflectV).V.V)
		return nil
	}
	// sort.Slice / sort.SliceStable / sort.Strings run their real stdlib code; only the
	// reflection helpers they use are intrinsics.
	S["internal/reflectlite.ValueOf"] = func(in *Interp, a []Value) Value { return reflectV{a[0].(Iface)} }
	S["(internal/reflectlite.Value).Len"] = S["(reflect.Value).Len"]
	S["internal/reflectlite.Swapper"] = func(in *Interp, a []Value) Value {
		sl, ok := a[0].(Iface).V.(SliceV)
		if !ok {
			in.panicf("reflect: call of Swapper on a non-slice")
		}
		return &Closure{Name: "swapper", Native: func(in *Interp, args []Value) Value {
			i := in.concInt(args[0], "swap index")
			j := in.concInt(args[1], "swap index")
			if i < 0 || j < 0 || i >= sl.Len || j >= sl.Len {
				in.panicf("reflect: slice index out of range")
			}
			c := sl.Arr.Cells
			if sl.Arr.Frozen && in.MonitorOn {
				in.sharedWrite("swap", c[sl.Off+i], c[sl.Off+j])
			}
			c[sl.Off+i], c[sl.Off+j] = c[sl.Off+j], c[sl.Off+i]
			return nil
		}}
	}
	S["reflect.Swapper"] = S["internal/reflectlite.Swapper"]
	S["strconv.AppendInt"] = func(in *Interp, a []Value) Value {
		t := a[1].(*smt.Term)
		if !t.IsConst() {
			t = in.Ctx.Concretize(t)
			in.StubHits["concretized: strconv.AppendInt of a symbolic int"]++
		}
		s := strconv.FormatInt(smt.Signed(t.Val, 64).Int64(), in.concInt(a[2], "base"))
		return in.appendBytes(a[0].(SliceV), []byte(s))
	}
	S["strconv.Itoa"] = func(in *Interp, a []Value) Value {
		t := a[0].(*smt.Term)
		if !t.IsConst() {
			t = in.Ctx.Concretize(t)
			in.StubHits["concretized: strconv.Itoa of a symbolic int"]++
		}
		return Str{S: strconv.FormatInt(smt.Signed(t.Val, 64).Int64(), 10)}
	}
}

// appendBytes appends concrete bytes to a byte slice with Go's append semantics.
func (in *Interp) appendBytes(dst SliceV, b []byte) SliceV {
	if len(b) == 0 {
		return dst
	}
	if dst.Arr != nil && dst.Len+len(b) <= dst.Cap {
		for i, c := range b {
			if dst.Arr.Frozen {
				in.sharedWrite("append in place", dst.Arr.Cells[dst.Off+dst.Len+i], in.St.BVConstI(int64(c), 8))
			}
			dst.Arr.Cells[dst.Off+dst.Len+i] = in.St.BVConstI(int64(c), 8)
		}
		dst.Len += len(b)
		return dst
	}
	ncap := max(2*dst.Cap, dst.Len+len(b), 8)
	arr := &Obj{Cells: make([]Value, ncap), T: types.Typ[types.Uint8]}
	for i := 0; i < dst.Len; i++ {
		arr.Cells[i] = dst.Arr.Cells[dst.Off+i]
	}
	for i, c := range b {
		arr.Cells[dst.Len+i] = in.St.BVConstI(int64(c), 8)
	}
	z := in.St.BVConstI(0, 8)
	for i := dst.Len + len(b); i < ncap; i++ {
		arr.Cells[i] = z
	}
	return SliceV{arr, 0, dst.Len + len(b), ncap}
}
