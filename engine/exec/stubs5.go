package exec

import (
	"encoding/json"
	"go/types"
	"io"
	"sort"
	"strings"

	"gosym/smt"
)

// ---- encoding/json decoder: Go's decoder is trusted and run natively on concrete text ----

type jsonDecModel struct {
	dec *json.Decoder
	src string
}

func (in *Interp) namedType(pkg, name string) types.Type {
	p := in.Prog.ImportedPackage(pkg)
	if p == nil {
		abortf("unsupported: package %s not in the program", pkg)
	}
	return p.Type(name).Type()
}

func (in *Interp) anyType() types.Type { return types.NewInterfaceType(nil, nil).Complete() }

// concretizeStr fixes every symbolic byte of s to one model value (recorded).
func (in *Interp) concretizeStr(s Str, what string) string {
	if s.B == nil {
		return s.S
	}
	in.StubHits["concretized: "+what]++
	bs := make([]byte, len(s.B))
	for i, b := range s.B {
		k := in.Ctx.Concretize(b)
		bs[i] = byte(k.Val.Uint64())
	}
	return string(bs)
}

// fromNative converts a host JSON value (as produced by encoding/json with UseNumber)
// into an interpreter value of static type `any`.
func (in *Interp) fromNative(v any) Value {
	anyT := in.anyType()
	switch v := v.(type) {
	case nil:
		return Iface{}
	case bool:
		return Iface{T: types.Typ[types.Bool], V: in.St.BoolConst(v)}
	case json.Number:
		return Iface{T: in.namedType("encoding/json", "Number"), V: Str{S: string(v)}}
	case float64:
		return Iface{T: types.Typ[types.Float64], V: in.St.FPConst(v)}
	case string:
		return Iface{T: types.Typ[types.String], V: Str{S: v}}
	case []any:
		arr := &Obj{Cells: make([]Value, len(v)), T: anyT}
		for i, x := range v {
			arr.Cells[i] = in.fromNative(x)
		}
		return Iface{T: types.NewSlice(anyT), V: SliceV{arr, 0, len(v), len(v)}}
	case map[string]any:
		m := &MapV{KT: types.Typ[types.String], VT: anyT}
		keys := make([]string, 0, len(v))
		for k := range v {
			keys = append(keys, k)
		}
		sort.Strings(keys)
		for _, k := range keys {
			m.Keys = append(m.Keys, Str{S: k})
			m.Vals = append(m.Vals, in.fromNative(v[k]))
		}
		return Iface{T: types.NewMap(types.Typ[types.String], anyT), V: m}
	case json.Delim:
		return Iface{T: in.namedType("encoding/json", "Delim"), V: in.St.BVConstI(int64(v), 32)}
	}
	abortf("unsupported: fromNative %T", v)
	return nil
}

func (in *Interp) ioEOF() Value {
	p := in.Prog.ImportedPackage("io")
	if p == nil {
		abortf("unsupported: package io not in the program")
	}
	return in.load(in.global(p.Var("EOF")))
}

func (in *Interp) nativeErr(err error) Value {
	if err == nil {
		return Iface{}
	}
	if err == io.EOF {
		return in.ioEOF()
	}
	if err == io.ErrUnexpectedEOF {
		p := in.Prog.ImportedPackage("io")
		return in.load(in.global(p.Var("ErrUnexpectedEOF")))
	}
	if se, ok := err.(*json.SyntaxError); ok {
		// a typed *json.SyntaxError in the interpreted heap (callers inspect and adjust Offset)
		t := in.namedType("encoding/json", "SyntaxError")
		o := in.zero(t).(*Obj)
		o.Cells[0] = Str{S: se.Error()}
		o.Cells[1] = in.St.BVConstI(se.Offset, 64)
		box := &Obj{Cells: []Value{o}, T: t}
		return Iface{T: types.NewPointer(t), V: Ptr{O: box, I: 0}}
	}
	return in.goError(err.Error())
}

func (in *Interp) installStubs5() {
	st := in.St
	S := in.Stubs
	S["encoding/json.NewDecoder"] = func(in *Interp, a []Value) Value {
		r := a[0].(Iface)
		// only readers whose whole content is known are supported here: *strings.Reader
		if p, ok := r.V.(Ptr); ok && r.T != nil && r.T.String() == "*strings.Reader" {
			o := p.O.Cells[p.I].(*Obj)
			s := in.concretizeStr(o.Cells[0].(Str), "json.Decoder input")
			pos := in.concInt(o.Cells[1], "strings.Reader position")
			src := s[pos:]
			return in.newNative(&jsonDecModel{dec: json.NewDecoder(strings.NewReader(src)), src: src})
		}
		abortf("unsupported: json.NewDecoder over %v", r.T)
		return nil
	}
	S["(*encoding/json.Decoder).UseNumber"] = func(in *Interp, a []Value) Value {
		in.nativeOf(a[0].(Ptr)).(*jsonDecModel).dec.UseNumber()
		return nil
	}
	S["(*encoding/json.Decoder).Decode"] = func(in *Interp, a []Value) Value {
		d := in.nativeOf(a[0].(Ptr)).(*jsonDecModel)
		var w any
		if err := d.dec.Decode(&w); err != nil {
			return in.nativeErr(err)
		}
		dst, ok := a[1].(Iface).V.(Ptr)
		if !ok {
			abortf("unsupported: json.Decoder.Decode into %v", a[1].(Iface).T)
		}
		in.store(dst, in.fromNative(w))
		return Iface{}
	}
	S["(*encoding/json.Decoder).Token"] = func(in *Interp, a []Value) Value {
		d := in.nativeOf(a[0].(Ptr)).(*jsonDecModel)
		t, err := d.dec.Token()
		if err != nil {
			return Tuple{Iface{}, in.nativeErr(err)}
		}
		return Tuple{in.fromNative(t), Iface{}}
	}
	S["(*encoding/json.Decoder).More"] = func(in *Interp, a []Value) Value {
		return st.BoolConst(in.nativeOf(a[0].(Ptr)).(*jsonDecModel).dec.More())
	}
	S["(*encoding/json.Decoder).InputOffset"] = func(in *Interp, a []Value) Value {
		return st.BVConstI(in.nativeOf(a[0].(Ptr)).(*jsonDecModel).dec.InputOffset(), 64)
	}
	S["encoding/json.Unmarshal"] = func(in *Interp, a []Value) Value {
		b := in.concreteBytesOrConcretize(a[0], "json.Unmarshal input")
		dst, ok := a[1].(Iface).V.(Ptr)
		if !ok {
			abortf("unsupported: json.Unmarshal into %v", a[1].(Iface).T)
		}
		// destination *string (lexer) or *any
		if pt, ok := a[1].(Iface).T.(*types.Pointer); ok && isString(pt.Elem()) {
			var s string
			if err := json.Unmarshal(b, &s); err != nil {
				return in.goError(err.Error())
			}
			in.store(dst, Str{S: s})
			return Iface{}
		}
		// destination *any: the real Unmarshal (numbers become float64), run natively
		if pt, ok := a[1].(Iface).T.(*types.Pointer); ok {
			if it, isIface := pt.Elem().Underlying().(*types.Interface); isIface && it.Empty() {
				var w any
				if err := json.Unmarshal(b, &w); err != nil {
					return in.nativeErr(err)
				}
				in.store(dst, in.fromNative(w))
				return Iface{}
			}
		}
		abortf("unsupported: json.Unmarshal into %v", a[1].(Iface).T)
		return nil
	}
}

func (in *Interp) concreteBytesOrConcretize(v Value, what string) []byte {
	ts := in.bytesOf(v)
	out := make([]byte, len(ts))
	conc := false
	for i, t := range ts {
		if !t.IsConst() {
			t = in.Ctx.Concretize(t)
			conc = true
		}
		out[i] = byte(t.Val.Uint64())
	}
	if conc {
		in.StubHits["concretized: "+what]++
	}
	return out
}

var _ = smt.Bool
