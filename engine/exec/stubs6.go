package exec

import (
	"math"

	"gosym/smt"
)

// math: exact IEEE intrinsics where the SMT FP theory has them; everything else is
// computed natively on concrete arguments and unsupported on symbolic ones.
func (in *Interp) installStubs6() {
	st := in.St
	S := in.Stubs
	isNaN := func(x *smt.Term) *smt.Term { return st.FpUn(smt.OpFpIsNaN, x, "") }
	isZero := func(x *smt.Term) *smt.Term { return st.FpBin(smt.OpFpEq, x, st.FPConst(0)) }
	negative := func(x *smt.Term) *smt.Term { // sign bit set
		return st.Eq(st.Bin(smt.OpBvLshr, st.FpToBits(x), st.BVConstI(63, 64)), st.BVConstI(1, 64))
	}
	S["math.Max"] = func(in *Interp, a []Value) Value {
		x, y := a[0].(*smt.Term), a[1].(*smt.Term)
		if x.IsConst() && y.IsConst() {
			return st.FPConst(math.Max(smt.FPVal(x), smt.FPVal(y)))
		}
		bothZero := st.And(isZero(x), isZero(y))
		zeroRes := st.Ite(st.And(negative(x), negative(y)), st.FPConst(math.Copysign(0, -1)), st.FPConst(0))
		r := st.Ite(bothZero, zeroRes, st.FpBin(smt.OpFpMax, x, y))
		return st.Ite(st.Or(isNaN(x), isNaN(y)), st.FPConst(math.NaN()), r)
	}
	S["math.Min"] = func(in *Interp, a []Value) Value {
		x, y := a[0].(*smt.Term), a[1].(*smt.Term)
		if x.IsConst() && y.IsConst() {
			return st.FPConst(math.Min(smt.FPVal(x), smt.FPVal(y)))
		}
		bothZero := st.And(isZero(x), isZero(y))
		zeroRes := st.Ite(st.Or(negative(x), negative(y)), st.FPConst(math.Copysign(0, -1)), st.FPConst(0))
		r := st.Ite(bothZero, zeroRes, st.FpBin(smt.OpFpMin, x, y))
		return st.Ite(st.Or(isNaN(x), isNaN(y)), st.FPConst(math.NaN()), r)
	}
	S["math.Copysign"] = func(in *Interp, a []Value) Value {
		x, y := a[0].(*smt.Term), a[1].(*smt.Term)
		if x.IsConst() && y.IsConst() {
			return st.FPConst(math.Copysign(smt.FPVal(x), smt.FPVal(y)))
		}
		ax := st.FpUn(smt.OpFpAbs, x, "")
		return st.Ite(negative(y), st.FpUn(smt.OpFpNeg, ax, ""), ax)
	}
	S["math.Signbit"] = func(in *Interp, a []Value) Value { return negative(a[0].(*smt.Term)) }
	S["math.Float64frombits"] = func(in *Interp, a []Value) Value {
		x := a[0].(*smt.Term)
		if x.IsConst() {
			return st.FPConstBits(x.Val.Uint64())
		}
		abortf("unsupported: math.Float64frombits of a symbolic value")
		return nil
	}
	one := map[string]func(float64) float64{
		"Sqrt": math.Sqrt, "Exp": math.Exp, "Exp2": math.Exp2, "Log": math.Log, "Log2": math.Log2, "Log10": math.Log10, "Log1p": math.Log1p, "Expm1": math.Expm1,
		"Sin": math.Sin, "Cos": math.Cos, "Tan": math.Tan, "Asin": math.Asin, "Acos": math.Acos, "Atan": math.Atan, "Sinh": math.Sinh, "Cosh": math.Cosh, "Tanh": math.Tanh,
		"Asinh": math.Asinh, "Acosh": math.Acosh, "Atanh": math.Atanh, "Cbrt": math.Cbrt, "Round": math.Round, "RoundToEven": math.RoundToEven, "Gamma": math.Gamma,
		"Logb": math.Logb, "J0": math.J0, "J1": math.J1, "Y0": math.Y0, "Y1": math.Y1, "Erf": math.Erf, "Erfc": math.Erfc,
	}
	for name, f := range one {
		f := f
		name := name
		S["math."+name] = func(in *Interp, a []Value) Value {
			x := a[0].(*smt.Term)
			if !x.IsConst() {
				x = in.Ctx.Concretize(x)
				in.StubHits["concretized: math."+name+" of a symbolic float"]++
			}
			return st.FPConst(f(smt.FPVal(x)))
		}
	}
	two := map[string]func(float64, float64) float64{
		"Pow": math.Pow, "Mod": math.Mod, "Remainder": math.Remainder, "Atan2": math.Atan2, "Hypot": math.Hypot, "Nextafter": math.Nextafter, "Dim": math.Dim,
	}
	for name, f := range two {
		f := f
		name := name
		S["math."+name] = func(in *Interp, a []Value) Value {
			x, y := a[0].(*smt.Term), a[1].(*smt.Term)
			if !x.IsConst() {
				x = in.Ctx.Concretize(x)
				in.StubHits["concretized: math."+name+" of a symbolic float"]++
			}
			if !y.IsConst() {
				y = in.Ctx.Concretize(y)
			}
			return st.FPConst(f(smt.FPVal(x), smt.FPVal(y)))
		}
	}
	conc := func(in *Interp, v Value, what string) float64 {
		x := v.(*smt.Term)
		if !x.IsConst() {
			x = in.Ctx.Concretize(x)
			in.StubHits["concretized: "+what+" of a symbolic float"]++
		}
		return smt.FPVal(x)
	}
	S["math.FMA"] = func(in *Interp, a []Value) Value {
		return st.FPConst(math.FMA(conc(in, a[0], "math.FMA"), conc(in, a[1], "math.FMA"), conc(in, a[2], "math.FMA")))
	}
	S["math.Frexp"] = func(in *Interp, a []Value) Value {
		f, e := math.Frexp(conc(in, a[0], "math.Frexp"))
		return Tuple{st.FPConst(f), st.BVConstI(int64(e), 64)}
	}
	S["math.Modf"] = func(in *Interp, a []Value) Value {
		i, f := math.Modf(conc(in, a[0], "math.Modf"))
		return Tuple{st.FPConst(i), st.FPConst(f)}
	}
	S["math.Ldexp"] = func(in *Interp, a []Value) Value {
		return st.FPConst(math.Ldexp(conc(in, a[0], "math.Ldexp"), in.concIntC(a[1])))
	}
	S["math.Lgamma"] = func(in *Interp, a []Value) Value {
		l, s := math.Lgamma(conc(in, a[0], "math.Lgamma"))
		return Tuple{st.FPConst(l), st.BVConstI(int64(s), 64)}
	}
	S["math.Jn"] = func(in *Interp, a []Value) Value {
		return st.FPConst(math.Jn(in.concIntC(a[0]), conc(in, a[1], "math.Jn")))
	}
	S["math.Yn"] = func(in *Interp, a []Value) Value {
		return st.FPConst(math.Yn(in.concIntC(a[0]), conc(in, a[1], "math.Yn")))
	}
}

// concIntC: a concrete int, concretizing a symbolic one to a representative.
func (in *Interp) concIntC(v Value) int {
	t := v.(*smt.Term)
	if !t.IsConst() {
		t = in.Ctx.Concretize(t)
		in.StubHits["concretized: integer argument of a math function"]++
	}
	return int(smt.Signed(t.Val, t.Sort.W).Int64())
}
