package exec

import (
	"fmt"
	"math/big"
	"time"

	"gosym/smt"
)

type Decision struct {
	Val    int
	Forced bool   // only one side feasible: no alternative queued
	N      int    // number of alternatives (2 for branches)
	S      string // concretization: the chosen value (decimal)
}

// Ctx is the per-path exploration context (decision replay).
type Ctx struct {
	St       *smt.Store
	Solver   *smt.Solver
	prefix   []Decision // decisions to replay
	Trace    []Decision // decisions taken on this path
	levels   []int      // solver level after each decision of Trace
	Pending  *[][]Decision
	Vars     []*smt.Term // nondet variables created on this path (in order)
	Log      []NondetRec // nondet calls in program order (for replay)
	Lits     []*smt.Term // literals of the path condition, in order
	SolverBin string
	fpMemo   map[*smt.Term]bool
	nvar     int
	prevKeep int // number of leading decisions whose solver state is kept from the previous path
	prevLevels []int
	Queries  int
	decided  map[*smt.Term]bool
	Concretized int
	FeasMs   int
	ObligMs  int
	FreshChecks, FreshSat, FreshUnsat, FreshUnknown int
	FreshTime time.Duration
}

// NondetRec is one harness-level nondet call: either a symbolic variable or a choice.
type NondetRec struct {
	Var    *smt.Term
	Choice int
	Signed bool
}

func (c *Ctx) Fresh(prefix string, so smt.Sort) *smt.Term {
	c.nvar++
	v := c.St.Var(fmt.Sprintf("%s%d_%d", prefix, so.W, c.nvar), so)
	c.Vars = append(c.Vars, v)
	c.Log = append(c.Log, NondetRec{Var: v, Signed: prefix == "i"})
	return v
}

// ReplayValues turns the nondet log plus a model into the value list consumed by
// the native intrinsics.
func (c *Ctx) ReplayValues(m map[string]*big.Int) []string {
	var out []string
	for _, r := range c.Log {
		if r.Var == nil {
			out = append(out, fmt.Sprint(r.Choice))
			continue
		}
		v := m[r.Var.Name]
		if v == nil {
			v = new(big.Int)
		}
		if r.Signed && r.Var.Sort.K == smt.KBV && v.Sign() >= 0 {
			v = smt.Signed(v, r.Var.Sort.W)
		}
		out = append(out, v.String())
	}
	return out
}

func (c *Ctx) assertDecision(lit *smt.Term) {
	c.Solver.Push()
	c.Solver.Assert(lit)
}

// Branch decides a symbolic condition.
func (c *Ctx) Branch(cond *smt.Term) bool {
	if cond.IsTrue() {
		return true
	}
	if cond.IsFalse() {
		return false
	}
	if c.decided == nil {
		c.decided = map[*smt.Term]bool{}
	}
	if v, ok := c.decided[cond]; ok {
		return v
	}
	if cond.Op == smt.OpNot {
		if v, ok := c.decided[cond.Args[0]]; ok {
			return !v
		}
	}
	defer func() {
		if len(c.Lits) > 0 {
			l := c.Lits[len(c.Lits)-1]
			if l == cond {
				c.decided[cond] = true
			} else if l.Op == smt.OpNot && l.Args[0] == cond || cond.Op == smt.OpNot && cond.Args[0] == l {
				c.decided[cond] = false
			}
		}
	}()
	i := len(c.Trace)
	if i < len(c.prefix) {
		d := c.prefix[i]
		c.Trace = append(c.Trace, d)
		if d.Val == 1 {
			c.Lits = append(c.Lits, cond)
		} else {
			c.Lits = append(c.Lits, c.St.Not(cond))
		}
		if i < c.prevKeep {
			c.levels = append(c.levels, c.prevLevels[i])
			return d.Val == 1
		}
		if !d.Forced {
			if d.Val == 1 {
				c.assertDecision(cond)
			} else {
				c.assertDecision(c.St.Not(cond))
			}
		}
		c.levels = append(c.levels, c.Solver.Level())
		return d.Val == 1
	}
	c.Queries++
	rt, err := c.Solver.CheckWith(cond, c.FeasMs)
	if err != nil {
		abortf("solver error: %v", err)
	}
	c.Queries++
	rf, err := c.Solver.CheckWith(c.St.Not(cond), c.FeasMs)
	if err != nil {
		abortf("solver error: %v", err)
	}
	tOK, fOK := rt != smt.Unsat, rf != smt.Unsat
	switch {
	case tOK && fOK:
		alt := append(append([]Decision{}, c.Trace...), Decision{Val: 0, N: 2})
		*c.Pending = append(*c.Pending, alt)
		c.Trace = append(c.Trace, Decision{Val: 1, N: 2})
		c.Lits = append(c.Lits, cond)
		c.assertDecision(cond)
		c.levels = append(c.levels, c.Solver.Level())
		return true
	case tOK:
		c.Lits = append(c.Lits, cond)
		c.Trace = append(c.Trace, Decision{Val: 1, N: 2, Forced: true})
		c.levels = append(c.levels, c.Solver.Level())
		return true
	case fOK:
		c.Lits = append(c.Lits, c.St.Not(cond))
		c.Trace = append(c.Trace, Decision{Val: 0, N: 2, Forced: true})
		c.levels = append(c.levels, c.Solver.Level())
		return false
	default:
		abortf("infeasible path (both sides unsat)")
		return false
	}
}

// Concretize fixes a symbolic term to one model value on this path (KLEE-style):
// the equality is added to the path condition and no alternative is explored, so
// what follows is claimed "for the representative value" only.
func (c *Ctx) Concretize(t *smt.Term) *smt.Term {
	if t.IsConst() {
		return t
	}
	c.Concretized++
	i := len(c.Trace)
	var val *big.Int
	if i < len(c.prefix) {
		d := c.prefix[i]
		val, _ = new(big.Int).SetString(d.S, 10)
		c.Trace = append(c.Trace, d)
		k := c.constOf(t, val)
		c.Lits = append(c.Lits, c.St.Eq(t, k))
		if i < c.prevKeep {
			c.levels = append(c.levels, c.prevLevels[i])
			return k
		}
		c.assertDecision(c.St.Eq(t, k))
		c.levels = append(c.levels, c.Solver.Level())
		return k
	}
	c.Queries++
	r, err := c.Solver.Check(c.ObligMs)
	if err != nil || r != smt.Sat {
		abortf("unsupported: cannot concretize a symbolic value (path condition %v)", r)
	}
	m, err := c.Solver.Values([]*smt.Term{t})
	if err != nil {
		abortf("solver error: %v", err)
	}
	for _, v := range m {
		val = v
	}
	if val == nil {
		abortf("unsupported: no model value for concretization")
	}
	if t.Sort.K == smt.KBV && val.Sign() < 0 {
		val = new(big.Int).And(val, new(big.Int).Sub(new(big.Int).Lsh(big.NewInt(1), uint(t.Sort.W)), big.NewInt(1)))
	}
	k := c.constOf(t, val)
	c.Trace = append(c.Trace, Decision{Val: 1, N: 1, Forced: false, S: val.String()})
	c.Lits = append(c.Lits, c.St.Eq(t, k))
	c.assertDecision(c.St.Eq(t, k))
	c.levels = append(c.levels, c.Solver.Level())
	return k
}

func (c *Ctx) constOf(t *smt.Term, val *big.Int) *smt.Term {
	switch t.Sort.K {
	case smt.KBool:
		return c.St.BoolConst(val.Sign() != 0)
	case smt.KFP:
		return c.St.FPConstBits(val.Uint64())
	}
	return c.St.BVConst(val, t.Sort.W)
}

// Assume adds cond to the path condition without exploring its negation; returns
// false when cond is infeasible on this path.
func (c *Ctx) Assume(cond *smt.Term) bool {
	if cond.IsTrue() {
		return true
	}
	if cond.IsFalse() {
		return false
	}
	i := len(c.Trace)
	if i < len(c.prefix) {
		d := c.prefix[i]
		c.Trace = append(c.Trace, d)
		c.Lits = append(c.Lits, cond)
		if i < c.prevKeep {
			c.levels = append(c.levels, c.prevLevels[i])
			return true
		}
		c.assertDecision(cond)
		c.levels = append(c.levels, c.Solver.Level())
		return true
	}
	c.Queries++
	r, err := c.Solver.CheckWith(cond, c.FeasMs)
	if err != nil {
		abortf("solver error: %v", err)
	}
	if r == smt.Unsat {
		return false
	}
	c.Trace = append(c.Trace, Decision{Val: 1, N: 1})
	c.Lits = append(c.Lits, cond)
	c.assertDecision(cond)
	c.levels = append(c.levels, c.Solver.Level())
	return true
}

// Choose is an n-way nondeterministic choice (no solver involved).
func (c *Ctx) Choose(n int) int {
	if n <= 1 {
		return 0
	}
	i := len(c.Trace)
	if i < len(c.prefix) {
		d := c.prefix[i]
		c.Trace = append(c.Trace, d)
		if i < c.prevKeep {
			c.levels = append(c.levels, c.prevLevels[i])
		} else {
			c.levels = append(c.levels, c.Solver.Level())
		}
		return d.Val
	}
	for k := n - 1; k >= 1; k-- {
		alt := append(append([]Decision{}, c.Trace...), Decision{Val: k, N: n})
		*c.Pending = append(*c.Pending, alt)
	}
	c.Trace = append(c.Trace, Decision{Val: 0, N: n})
	c.levels = append(c.levels, c.Solver.Level())
	return 0
}

// ConcretizeIndex forks over the values 0..n-1 of idx (assumed in range).
func (c *Ctx) ConcretizeIndex(idx *smt.Term, n int) int {
	if idx.IsConst() {
		return int(idx.Val.Int64())
	}
	for k := 0; k < n-1; k++ {
		if c.Branch(c.St.Eq(idx, c.St.BVConstI(int64(k), idx.Sort.W))) {
			return k
		}
	}
	return n - 1
}

// Prove asks whether cond holds on the current path: returns (holds, model-if-not).
func (c *Ctx) hasFP(t *smt.Term) bool {
	if c.fpMemo == nil {
		c.fpMemo = map[*smt.Term]bool{}
	}
	if v, ok := c.fpMemo[t]; ok {
		return v
	}
	r := t.Sort.K == smt.KFP
	for _, a := range t.Args {
		if r {
			break
		}
		r = c.hasFP(a)
	}
	c.fpMemo[t] = r
	return r
}

// proveFresh discharges an obligation in a fresh, non-incremental solver process.
func (c *Ctx) proveFresh(cond *smt.Term) (smt.Result, map[string]*big.Int) {
	s, err := smt.NewSolver(c.SolverBin, "-in")
	if err != nil {
		return smt.Unknown, nil
	}
	defer s.Close()
	s.Store = c.St
	s.IntMode = c.Solver.IntMode
	for _, l := range c.Lits {
		s.Assert(l)
	}
	s.Assert(c.St.Not(cond))
	r, err := s.Check(c.ObligMs)
	if err != nil {
		return smt.Unknown, nil
	}
	var m map[string]*big.Int
	if r == smt.Sat {
		m, _ = s.Values(c.Vars)
	}
	c.FreshChecks += s.Stats.Checks
	c.FreshSat += s.Stats.Sat
	c.FreshUnsat += s.Stats.Unsat
	c.FreshUnknown += s.Stats.Unknown
	c.FreshTime += s.Stats.Time
	return r, m
}

func (c *Ctx) Prove(cond *smt.Term) (smt.Result, map[string]*big.Int) {
	if cond.IsTrue() {
		return smt.Unsat, nil
	}
	if c.SolverBin != "" && c.hasFP(cond) {
		c.Queries++
		return c.proveFresh(cond)
	}
	c.Queries++
	lvl := c.Solver.Level()
	c.Solver.Push()
	c.Solver.Assert(c.St.Not(cond))
	r, err := c.Solver.Check(c.ObligMs)
	if err != nil {
		c.Solver.PopTo(lvl)
		abortf("solver error: %v", err)
	}
	var m map[string]*big.Int
	if r == smt.Sat {
		m, _ = c.Solver.Values(c.Vars)
	}
	c.Solver.PopTo(lvl)
	return r, m
}

// Model returns a model of the current path condition.
func (c *Ctx) Model() map[string]*big.Int {
	r, err := c.Solver.Check(c.ObligMs)
	if err != nil || r != smt.Sat {
		return nil
	}
	m, _ := c.Solver.Values(c.Vars)
	return m
}

func NewCtx(st *smt.Store, solver *smt.Solver, prefix []Decision, keep int, prevLevels []int, pending *[][]Decision) *Ctx {
	return &Ctx{St: st, Solver: solver, prefix: prefix, prevKeep: keep, prevLevels: prevLevels, Pending: pending}
}

func (c *Ctx) Levels() []int { return c.levels }

func (c *Ctx) LogChoice(k int) { c.Log = append(c.Log, NondetRec{Choice: k}) }
