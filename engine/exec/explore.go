package exec

import (
	"fmt"
	"math/big"
	"reflect"
	"time"

	"gosym/smt"
)

type Decision struct {
	Val    int
	Forced bool   // only one side feasible: no alternative queued
	N      int    // number of alternatives (2 for branches)
	S      string // concretization: the chosen value (decimal)
}

// PendingPath is an unexplored alternative: the decision prefix that leads to it
// and, when known, a model of its path condition (nondet variable name -> value).
type PendingPath struct {
	Prefix []Decision
	Model  map[string]*big.Int
}

// Ctx is the per-path exploration context (decision replay).
type Ctx struct {
	St                                              *smt.Store
	Solver                                          *smt.Solver
	prefix                                          []Decision // decisions to replay
	Trace                                           []Decision // decisions taken on this path
	levels                                          []int      // solver level after each decision of Trace
	Pending                                         *[]PendingPath
	Vars                                            []*smt.Term // nondet variables created on this path (in order)
	Log                                             []NondetRec // nondet calls in program order (for replay)
	Lits                                            []*smt.Term // literals of the path condition, in order
	SolverBin                                       string
	fpMemo                                          map[*smt.Term]bool
	nvar                                            int
	prevKeep                                        int // number of leading decisions whose solver state is kept from the previous path
	prevLevels                                      []int
	Queries                                         int
	decided                                         map[*smt.Term]bool
	Concretized                                     int
	FeasMs                                          int
	ObligMs                                         int
	FreshChecks, FreshSat, FreshUnsat, FreshUnknown int
	FreshTime                                       time.Duration
	// model of the current path condition (all Lits), by variable name; nil if unknown.
	// While the recorded prefix is being replayed it is the model stored with the
	// pending path (valid for the whole prefix).
	model     map[string]*big.Int
	evalMemo  map[*smt.Term]*smt.Term
	subst     map[*smt.Term]*smt.Term
	substMemo map[*smt.Term]*smt.Term
	ModelHits int // decisions settled by evaluating the model instead of a solver query
	NoModel   bool
	pendingS  string
	NoSimp    bool
}

// NondetRec is one harness-level nondet call: either a symbolic variable or a choice.
type NondetRec struct {
	Var    *smt.Term
	Choice int
	Signed bool
}

func (c *Ctx) Fresh(prefix string, so smt.Sort) *smt.Term {
	c.nvar++
	v := c.St.Var(fmt.Sprintf("%s%d_%d", prefix, so.W, c.nvar), so)
	c.Vars = append(c.Vars, v)
	c.Log = append(c.Log, NondetRec{Var: v, Signed: prefix == "i"})
	return v
}

// ReplayValues turns the nondet log plus a model into the value list consumed by
// the native intrinsics.
func (c *Ctx) ReplayValues(m map[string]*big.Int) []string {
	var out []string
	for _, r := range c.Log {
		if r.Var == nil {
			out = append(out, fmt.Sprint(r.Choice))
			continue
		}
		v := m[r.Var.Name]
		if v == nil {
			v = new(big.Int)
		}
		if r.Signed && r.Var.Sort.K == smt.KBV && v.Sign() >= 0 {
			v = smt.Signed(v, r.Var.Sort.W)
		}
		out = append(out, v.String())
	}
	return out
}

func (c *Ctx) assertDecision(lit *smt.Term) {
	c.Solver.Push()
	c.Solver.Assert(lit)
}

// ---- model-guided evaluation ----

func (c *Ctx) setModel(m map[string]*big.Int) {
	c.model = m
	c.evalMemo = nil
}

func (c *Ctx) lookupVar(t *smt.Term) *smt.Term {
	v, ok := c.model[t.Name]
	if !ok {
		return nil
	}
	switch t.Sort.K {
	case smt.KBool:
		return c.St.BoolConst(v.Sign() != 0)
	case smt.KFP:
		return c.St.FPConstBits(v.Uint64())
	}
	if t.Sort.W == smt.WideW && c.Solver.IntMode && v.BitLen() > 64 {
		// unbounded integer in the Int rendering: the 192-bit evaluator could wrap where
		// the solver's integers do not; treat the value as unknown
		return t
	}
	return c.St.BVConst(v, t.Sort.W)
}

// evalModel: the value of t under the current model, or nil when there is no model or
// the value cannot be computed by folding.
func (c *Ctx) evalModel(t *smt.Term) *smt.Term {
	if c.model == nil || c.NoModel {
		return nil
	}
	if c.evalMemo == nil {
		c.evalMemo = map[*smt.Term]*smt.Term{}
	}
	r := c.St.Eval(t, c.lookupVar, c.evalMemo)
	if r != nil && !r.IsConst() {
		return nil
	}
	return r
}

// learn records what an asserted literal implies syntactically (variable = constant),
// so that later conditions fold without a solver query.
func (c *Ctx) learn(lit *smt.Term) {
	if v, k := c.St.SolveEq(lit); v != nil {
		if c.subst == nil {
			c.subst = map[*smt.Term]*smt.Term{}
		}
		if _, have := c.subst[v]; !have {
			c.subst[v] = k
			c.substMemo = nil
		}
	}
}

// Simplify rewrites t under the equalities learned on this path.
func (c *Ctx) Simplify(t *smt.Term) *smt.Term {
	if len(c.subst) == 0 || t.IsConst() || c.NoSimp {
		return t
	}
	if c.substMemo == nil {
		c.substMemo = map[*smt.Term]*smt.Term{}
	}
	return c.St.Subst(t, c.subst, c.substMemo)
}

func (c *Ctx) recordDecided(cond *smt.Term, v bool) {
	if c.decided == nil {
		c.decided = map[*smt.Term]bool{}
	}
	c.decided[cond] = v
}

func (c *Ctx) queue(alt Decision, m map[string]*big.Int) {
	p := append(append([]Decision{}, c.Trace...), alt)
	*c.Pending = append(*c.Pending, PendingPath{Prefix: p, Model: m})
}

// Branch decides a symbolic condition.
func (c *Ctx) Branch(cond *smt.Term) bool {
	cond = c.Simplify(cond)
	if cond.IsTrue() {
		return true
	}
	if cond.IsFalse() {
		return false
	}
	if v, ok := c.decided[cond]; ok {
		return v
	}
	if cond.Op == smt.OpNot {
		if v, ok := c.decided[cond.Args[0]]; ok {
			return !v
		}
	}
	i := len(c.Trace)
	if i < len(c.prefix) {
		d := c.prefix[i]
		c.pendingS = ""
		c.Trace = append(c.Trace, d)
		c.recordDecided(cond, d.Val == 1)
		lit := cond
		if d.Val != 1 {
			lit = c.St.Not(cond)
		}
		c.Lits = append(c.Lits, lit)
		c.learn(lit)
		if i < c.prevKeep {
			c.levels = append(c.levels, c.prevLevels[i])
			return d.Val == 1
		}
		if !d.Forced {
			c.assertDecision(lit)
		}
		c.levels = append(c.levels, c.Solver.Level())
		return d.Val == 1
	}
	if c.model == nil {
		c.refreshModel()
	}
	ncond := c.St.Not(cond)
	var rt, rf smt.Result
	var mt, mf map[string]*big.Int
	var err error
	ev := c.evalModel(cond)
	switch {
	case ev != nil && ev.IsTrue():
		c.ModelHits++
		rt, mt = smt.Sat, c.model
		c.Queries++
		rf, mf, err = c.Solver.CheckWithModel(ncond, c.FeasMs, c.Vars)
	case ev != nil && ev.IsFalse():
		c.ModelHits++
		rf, mf = smt.Sat, c.model
		c.Queries++
		rt, mt, err = c.Solver.CheckWithModel(cond, c.FeasMs, c.Vars)
	default:
		c.Queries++
		rt, mt, err = c.Solver.CheckWithModel(cond, c.FeasMs, c.Vars)
		if err == nil {
			if rt == smt.Unsat {
				// the path is feasible, so the other side must be
				rf = smt.Sat
			} else {
				c.Queries++
				rf, mf, err = c.Solver.CheckWithModel(ncond, c.FeasMs, c.Vars)
			}
		}
	}
	if err != nil {
		abortf("solver error: %v", err)
	}
	tOK, fOK := rt != smt.Unsat, rf != smt.Unsat
	switch {
	case tOK && fOK:
		c.queue(Decision{Val: 0, N: 2, S: c.pendingS}, mf)
		c.Trace = append(c.Trace, Decision{Val: 1, N: 2, S: c.pendingS})
		c.pendingS = ""
		c.Lits = append(c.Lits, cond)
		c.learn(cond)
		c.recordDecided(cond, true)
		c.assertDecision(cond)
		c.levels = append(c.levels, c.Solver.Level())
		c.setModelIfChanged(mt)
		return true
	case tOK:
		c.Lits = append(c.Lits, cond)
		c.learn(cond)
		c.recordDecided(cond, true)
		c.Trace = append(c.Trace, Decision{Val: 1, N: 2, Forced: true, S: c.pendingS})
		c.pendingS = ""
		c.levels = append(c.levels, c.Solver.Level())
		c.setModelIfChanged(mt)
		return true
	case fOK:
		c.Lits = append(c.Lits, ncond)
		c.learn(ncond)
		c.recordDecided(cond, false)
		c.Trace = append(c.Trace, Decision{Val: 0, N: 2, Forced: true, S: c.pendingS})
		c.pendingS = ""
		c.levels = append(c.levels, c.Solver.Level())
		c.setModelIfChanged(mf)
		return false
	default:
		abortf("infeasible path (both sides unsat)")
		return false
	}
}

// setModelIfChanged installs m as the model of the (extended) path condition; a nil m
// (unknown answer, or sat without values) drops the model.
func (c *Ctx) setModelIfChanged(m map[string]*big.Int) {
	if m == nil {
		c.setModel(nil)
		return
	}
	if sameMap(m, c.model) {
		return
	}
	c.setModel(m)
}

func sameMap(a, b map[string]*big.Int) bool {
	return a != nil && b != nil && reflect.ValueOf(a).Pointer() == reflect.ValueOf(b).Pointer()
}

// refreshModel obtains a model of the current path condition (one solver query).
func (c *Ctx) refreshModel() {
	if c.NoModel || len(c.Vars) == 0 {
		return
	}
	c.Queries++
	r, err := c.Solver.Check(c.FeasMs)
	if err != nil {
		abortf("solver error: %v", err)
	}
	if r == smt.Unsat {
		abortf("infeasible path (path condition unsat)")
	}
	if r == smt.Sat {
		if m, err := c.Solver.Values(c.Vars); err == nil && m != nil {
			c.setModel(m)
		}
	}
}

// Assume adds cond to the path condition without exploring its negation; returns
// false when cond is infeasible on this path.
func (c *Ctx) Assume(cond *smt.Term) bool {
	cond = c.Simplify(cond)
	if cond.IsTrue() {
		return true
	}
	if cond.IsFalse() {
		return false
	}
	i := len(c.Trace)
	if i < len(c.prefix) {
		d := c.prefix[i]
		c.Trace = append(c.Trace, d)
		c.Lits = append(c.Lits, cond)
		c.learn(cond)
		if i < c.prevKeep {
			c.levels = append(c.levels, c.prevLevels[i])
			return true
		}
		c.assertDecision(cond)
		c.levels = append(c.levels, c.Solver.Level())
		return true
	}
	if ev := c.evalModel(cond); ev != nil && ev.IsTrue() {
		c.ModelHits++
	} else {
		c.Queries++
		r, m, err := c.Solver.CheckWithModel(cond, c.FeasMs, c.Vars)
		if err != nil {
			abortf("solver error: %v", err)
		}
		if r == smt.Unsat {
			return false
		}
		if r == smt.Sat && m != nil {
			c.setModel(m)
		} else {
			c.setModel(nil)
		}
	}
	c.Trace = append(c.Trace, Decision{Val: 1, N: 1})
	c.Lits = append(c.Lits, cond)
	c.learn(cond)
	c.assertDecision(cond)
	c.levels = append(c.levels, c.Solver.Level())
	return true
}

// Concretize fixes a symbolic term to one model value on this path (KLEE-style):
// the equality is added to the path condition and no alternative is explored, so
// what follows is claimed "for the representative value" only.
func (c *Ctx) Concretize(t *smt.Term) *smt.Term {
	if t.IsConst() {
		return t
	}
	c.Concretized++
	i := len(c.Trace)
	var val *big.Int
	if i < len(c.prefix) {
		d := c.prefix[i]
		val, _ = new(big.Int).SetString(d.S, 10)
		c.Trace = append(c.Trace, d)
		k := c.constOf(t, val)
		c.Lits = append(c.Lits, c.St.Eq(t, k))
		c.learn(c.St.Eq(t, k))
		if i < c.prevKeep {
			c.levels = append(c.levels, c.prevLevels[i])
			return k
		}
		c.assertDecision(c.St.Eq(t, k))
		c.levels = append(c.levels, c.Solver.Level())
		return k
	}
	if ev := c.evalModel(t); ev != nil {
		c.ModelHits++
		val = ev.Val
	} else {
		c.Queries++
		r, err := c.Solver.Check(c.ObligMs)
		if err == nil && r == smt.Unsat {
			abortf("infeasible path (path condition unsat at a concretization)")
		}
		if err != nil || r != smt.Sat {
			abortf("unsupported: cannot concretize a symbolic value (path condition %v)", r)
		}
		m, err := c.Solver.Values(append([]*smt.Term{t}, c.Vars...))
		if err != nil {
			abortf("solver error: %v", err)
		}
		val = m[fmt.Sprintf("t%d", t.ID)]
		if t.Op == smt.OpVar {
			val = m[t.Name]
		}
		if val == nil {
			abortf("unsupported: no model value for concretization")
		}
		c.setModel(m)
	}
	if t.Sort.K == smt.KBV && val.Sign() < 0 {
		val = new(big.Int).And(val, new(big.Int).Sub(new(big.Int).Lsh(big.NewInt(1), uint(t.Sort.W)), big.NewInt(1)))
	}
	k := c.constOf(t, val)
	c.Trace = append(c.Trace, Decision{Val: 1, N: 1, Forced: false, S: val.String()})
	c.Lits = append(c.Lits, c.St.Eq(t, k))
	c.learn(c.St.Eq(t, k))
	c.assertDecision(c.St.Eq(t, k))
	c.levels = append(c.levels, c.Solver.Level())
	return k
}

func (c *Ctx) constOf(t *smt.Term, val *big.Int) *smt.Term {
	switch t.Sort.K {
	case smt.KBool:
		return c.St.BoolConst(val.Sign() != 0)
	case smt.KFP:
		return c.St.FPConstBits(val.Uint64())
	}
	return c.St.BVConst(val, t.Sort.W)
}

// Choose is an n-way nondeterministic choice (no solver involved).
func (c *Ctx) Choose(n int) int {
	if n <= 1 {
		return 0
	}
	i := len(c.Trace)
	if i < len(c.prefix) {
		d := c.prefix[i]
		c.Trace = append(c.Trace, d)
		if i < c.prevKeep {
			c.levels = append(c.levels, c.prevLevels[i])
		} else {
			c.levels = append(c.levels, c.Solver.Level())
		}
		return d.Val
	}
	for k := n - 1; k >= 1; k-- {
		c.queue(Decision{Val: k, N: n}, c.model)
	}
	c.Trace = append(c.Trace, Decision{Val: 0, N: n})
	c.levels = append(c.levels, c.Solver.Level())
	return 0
}

// EnumerateFork makes t concrete by forking over its feasible values: each value gets
// its own path (unlike Concretize, nothing is lost).
func (c *Ctx) EnumerateFork(t *smt.Term, limit int) *smt.Term {
	t = c.Simplify(t)
	for n := 0; n < limit; n++ {
		if t.IsConst() {
			return t
		}
		var val *big.Int
		if i := len(c.Trace); i < len(c.prefix) && c.prefix[i].S != "" {
			val, _ = new(big.Int).SetString(c.prefix[i].S, 10)
		} else {
			if c.model == nil {
				c.refreshModel()
			}
			ev := c.evalModel(t)
			if ev == nil {
				c.Queries++
				r, err := c.Solver.Check(c.FeasMs)
				if err != nil || r != smt.Sat {
					abortf("unsupported: cannot enumerate the values of a symbolic term (%v)", r)
				}
				m, err := c.Solver.Values(append([]*smt.Term{t}, c.Vars...))
				if err != nil {
					abortf("solver error: %v", err)
				}
				val = m[fmt.Sprintf("t%d", t.ID)]
				if t.Op == smt.OpVar {
					val = m[t.Name]
				}
				c.setModel(m)
			} else {
				val = ev.Val
			}
		}
		if val == nil {
			abortf("unsupported: no model value for enumeration")
		}
		if t.Sort.K == smt.KBV && val.Sign() < 0 {
			val = new(big.Int).And(val, new(big.Int).Sub(new(big.Int).Lsh(big.NewInt(1), uint(t.Sort.W)), big.NewInt(1)))
		}
		k := c.constOf(t, val)
		// remember the candidate so that the replay of this decision tests the same value
		c.pendingS = val.String()
		if c.Branch(c.St.Eq(t, k)) {
			return k
		}
		t = c.Simplify(t)
	}
	abortf("unsupported: more than %d feasible values in an enumeration", limit)
	return nil
}

// ConcretizeIndex forks over the values 0..n-1 of idx (assumed in range).
func (c *Ctx) ConcretizeIndex(idx *smt.Term, n int) int {
	if idx.IsConst() {
		return int(idx.Val.Int64())
	}
	for k := 0; k < n-1; k++ {
		if c.Branch(c.St.Eq(idx, c.St.BVConstI(int64(k), idx.Sort.W))) {
			return k
		}
	}
	return n - 1
}

func (c *Ctx) hasFP(t *smt.Term) bool {
	if c.fpMemo == nil {
		c.fpMemo = map[*smt.Term]bool{}
	}
	if v, ok := c.fpMemo[t]; ok {
		return v
	}
	r := t.Sort.K == smt.KFP
	for _, a := range t.Args {
		if r {
			break
		}
		r = c.hasFP(a)
	}
	c.fpMemo[t] = r
	return r
}

// proveFresh discharges an obligation in a fresh, non-incremental solver process.
func (c *Ctx) proveFresh(cond *smt.Term) (smt.Result, map[string]*big.Int) {
	s, err := smt.NewSolver(c.SolverBin, "-in")
	if err != nil {
		return smt.Unknown, nil
	}
	defer s.Close()
	s.Store = c.St
	s.IntMode = c.Solver.IntMode
	for _, l := range c.Lits {
		s.Assert(l)
	}
	s.Assert(c.St.Not(cond))
	r, err := s.Check(c.ObligMs)
	if err != nil {
		return smt.Unknown, nil
	}
	var m map[string]*big.Int
	if r == smt.Sat {
		m, _ = s.Values(c.Vars)
	}
	c.FreshChecks += s.Stats.Checks
	c.FreshSat += s.Stats.Sat
	c.FreshUnsat += s.Stats.Unsat
	c.FreshUnknown += s.Stats.Unknown
	c.FreshTime += s.Stats.Time
	return r, m
}

// Prove asks whether cond holds on the current path: Unsat = it holds for every
// value; Sat = the returned model violates it.
func (c *Ctx) Prove(cond *smt.Term) (smt.Result, map[string]*big.Int) {
	cond = c.Simplify(cond)
	if cond.IsTrue() {
		return smt.Unsat, nil
	}
	if ev := c.evalModel(cond); ev != nil && ev.IsFalse() && !cond.IsFalse() {
		// the model of the path condition already violates the assertion
		c.ModelHits++
		m := map[string]*big.Int{}
		for _, v := range c.Vars {
			if x, ok := c.model[v.Name]; ok {
				m[v.Name] = x
			} else {
				m[v.Name] = new(big.Int)
			}
		}
		return smt.Sat, m
	}
	if c.SolverBin != "" && c.hasFP(cond) {
		c.Queries++
		return c.proveFresh(cond)
	}
	c.Queries++
	lvl := c.Solver.Level()
	c.Solver.Push()
	c.Solver.Assert(c.St.Not(cond))
	r, err := c.Solver.Check(c.ObligMs)
	if err != nil {
		c.Solver.PopTo(lvl)
		abortf("solver error: %v", err)
	}
	var m map[string]*big.Int
	if r == smt.Sat {
		m, _ = c.Solver.Values(c.Vars)
	}
	c.Solver.PopTo(lvl)
	return r, m
}

// Model returns a model of the current path condition.
func (c *Ctx) Model() map[string]*big.Int {
	if c.model != nil && !c.NoModel {
		m := map[string]*big.Int{}
		for _, v := range c.Vars {
			if x, ok := c.model[v.Name]; ok {
				m[v.Name] = x
			} else {
				m[v.Name] = new(big.Int)
			}
		}
		return m
	}
	r, err := c.Solver.Check(c.ObligMs)
	if err != nil || r != smt.Sat {
		return nil
	}
	m, _ := c.Solver.Values(c.Vars)
	return m
}

func NewCtx(st *smt.Store, solver *smt.Solver, p PendingPath, keep int, prevLevels []int, pending *[]PendingPath) *Ctx {
	return &Ctx{St: st, Solver: solver, prefix: p.Prefix, prevKeep: keep, prevLevels: prevLevels, Pending: pending, model: p.Model}
}

func (c *Ctx) Levels() []int { return c.levels }

func (c *Ctx) LogChoice(k int) { c.Log = append(c.Log, NondetRec{Choice: k}) }
