// Package exec: symbolic interpreter for go/ssa with concrete heap shape and
// symbolic scalars.
package exec

import (
	"fmt"
	"go/types"

	"golang.org/x/tools/go/ssa"

	"gosym/smt"
)

// Value is one of:
//   *smt.Term            bool / integer scalars
//   Str                  string
//   Ptr                  pointer
//   *Obj                 struct or array value (by-value semantics: copy on load/store)
//   SliceV               slice
//   *MapV                map (nil = nil map)
//   Iface                interface value
//   *Closure             func value (nil = nil func)
//   Tuple                multiple results
//   *ChanV               channel (minimal)
//   *iterV               range iterator
type Value interface{}

type Obj struct {
	Cells  []Value
	Epoch  int
	Frozen bool
	T      types.Type
}

type Ptr struct {
	O   *Obj
	I   int
	N   int       // with Sym: the pointer denotes cell I+Sym, 0 <= Sym < N
	Sym *smt.Term // symbolic offset (BV64) or nil
}

func (p Ptr) IsNil() bool { return p.O == nil }

type SliceV struct {
	Arr           *Obj
	Off, Len, Cap int
}

type Str struct {
	S string      // valid when B == nil
	B []*smt.Term // per-byte BV8 terms when any byte is symbolic
}

func (s Str) Len() int {
	if s.B != nil {
		return len(s.B)
	}
	return len(s.S)
}

type MapV struct {
	Keys, Vals []Value
	KT, VT     types.Type
	Epoch      int
	Frozen     bool
}

type Iface struct {
	T types.Type // nil for nil interface
	V Value
}

type Closure struct {
	Fn       *ssa.Function
	Bindings []Value
	Native   func(in *Interp, args []Value) Value
	Name     string
	Recv     Value // bound method receiver (when HasRecv)
	HasRecv  bool
}

type Tuple []Value

type ChanV struct {
	Closed bool
	Buf    []Value
}

type iterV struct {
	// map
	m    *MapV
	keys []Value
	vals []Value
	// string
	s   Str
	pos int
	i   int
}

// TargetPanic is a Go-level panic in the interpreted program.
type TargetPanic struct {
	V     Value
	Msg   string
	Where string
}

func (p *TargetPanic) Error() string { return "target panic: " + p.Msg }

// Abort ends the current path for a reason that is not a target behaviour.
type Abort struct{ Reason string }

func (a *Abort) Error() string { return "abort: " + a.Reason }

func abortf(format string, args ...any) { panic(&Abort{fmt.Sprintf(format, args...)}) }
