package exec

import (
	"fmt"
	"regexp"
	"go/types"
	"math/big"

	"gosym/smt"
)

const BigW = 192

// big.Int model: value term (BV BigW, signed) per allocation object.
func (in *Interp) bigGet(p Ptr) *smt.Term {
	if p.O == nil {
		in.panicf("nil *big.Int")
	}
	if t, ok := in.bigs[p.O]; ok {
		return t
	}
	return in.St.BVConstI(0, BigW)
}

func (in *Interp) bigSet(p Ptr, t *smt.Term) Ptr {
	if p.O == nil {
		in.panicf("nil *big.Int")
	}
	if p.O.Frozen && in.MonitorOn {
		// an in-place operation on a *big.Int that existed before the run
		old := in.bigGet(p)
		in.sharedWrite("big.Int updated in place", old, t)
	}
	in.bigs[p.O] = t
	return p
}

func (in *Interp) newBig(t *smt.Term) Ptr {
	o := &Obj{Cells: []Value{nil}}
	in.bigs[o] = t
	return Ptr{O: o, I: 0}
}

func (in *Interp) installStubs() {
	st := in.St
	S := in.Stubs
	// ---- harness intrinsics (package-qualified names are matched by suffix in callFunction) ----
	in.Intrinsics = map[string]Stub{
		"nondetInt":  func(in *Interp, a []Value) Value { return in.Ctx.Fresh("i", smt.BV(64)) },
		"nondetByte": func(in *Interp, a []Value) Value { return in.Ctx.Fresh("b", smt.BV(8)) },
		"nondetFloat": func(in *Interp, a []Value) Value { return in.Ctx.Fresh("f", smt.FP64) },
		"nondetBool": func(in *Interp, a []Value) Value { return in.Ctx.Fresh("p", smt.Bool) },
		"nondetString": func(in *Interp, a []Value) Value {
			n := in.concInt(a[0], "nondetString length")
			if n == 0 {
				return Str{}
			}
			b := make([]*smt.Term, n)
			for i := range b {
				b[i] = in.Ctx.Fresh("s", smt.BV(8))
			}
			return Str{B: b}
		},
		"nondetChoice": func(in *Interp, a []Value) Value {
			k := in.Ctx.Choose(in.concInt(a[0], "nondetChoice"))
			in.Ctx.LogChoice(k)
			return st.BVConstI(int64(k), 64)
		},
		"vassume": func(in *Interp, a []Value) Value {
			if !in.Ctx.Assume(a[0].(*smt.Term)) {
				panic(&Abort{"assumption false"})
			}
			return nil
		},
		"vassert": func(in *Interp, a []Value) Value {
			if in.AssertFilter != nil {
				if ms, ok := a[1].(Str); ok && ms.B == nil && !in.AssertFilter.MatchString(ms.S) {
					return nil // an obligation of another property served by the same harness
				}
			}
			in.Obligations++
			r, m := in.Ctx.Prove(a[0].(*smt.Term))
			switch r {
			case smt.Unsat:
				in.Discharged++
			case smt.Sat:
				msg := "assertion"
				if len(a) > 1 {
					if ms, ok := a[1].(Str); ok && ms.B == nil {
						msg = ms.S
					}
				}
				panic(&Violation{Kind: "assert", Msg: msg, Model: m, Replay: in.Ctx.ReplayValues(m), Labels: append([]string(nil), in.Labels...), Where: in.where()})
			default:
				in.Inconclusive++
				if ms, ok := a[1].(Str); ok && ms.B == nil {
					in.InconclusiveMsgs = append(in.InconclusiveMsgs, ms.S)
				}
			}
			return nil
		},
		"vfreeze": func(in *Interp, a []Value) Value {
			in.freeze(a[0], map[any]bool{})
			return nil
		},
		"vmonitor": func(in *Interp, a []Value) Value {
			was := in.MonitorOn
			in.MonitorMode = in.concInt(a[0], "vmonitor mode")
			in.MonitorOn = in.MonitorMode != 0
			if was && !in.MonitorOn {
				// the path-level obligation "no (value-changing) write to pre-existing memory"
				// held on this path: a failing write would have ended the path
				in.Obligations++
				in.Discharged++
			}
			if in.MonitorOn {
				// package-level data exists before the run: frozen wholesale
				seen := map[any]bool{}
				for g, o := range in.globals {
					if g.Pkg != nil && g.Pkg.Pkg.Path() == "github.com/itchyny/gojq" {
						in.freeze(o, seen)
					}
				}
			}
			return nil
		},
		"vambient": func(in *Interp, a []Value) Value {
			was := in.AmbientOn
			in.AmbientOn = a[0].(*smt.Term).IsTrue()
			if was && !in.AmbientOn {
				// path-level obligation: no call into an ambient-authority package on this path
				in.Obligations++
				in.Discharged++
			}
			return nil
		},
		"vlabel": func(in *Interp, a []Value) Value {
			in.Labels = append(in.Labels, in.concStr(a[0])+"="+in.concStr(a[1]))
			return nil
		},
		"vparam": func(in *Interp, a []Value) Value {
			if v, ok := in.Params[in.concStr(a[0])]; ok {
				return st.BVConstI(int64(v), 64)
			}
			return a[1]
		},
		"vtypename": func(in *Interp, a []Value) Value {
			i := a[0].(Iface)
			if i.T == nil {
				return Str{S: "<nil>"}
			}
			return Str{S: i.T.String()}
		},
		"vnative": func(in *Interp, a []Value) Value { return st.F },
		"nondetBig": func(in *Interp, a []Value) Value {
			return in.newBig(in.Ctx.Fresh("i", smt.BV(BigW)))
		},
		"bigLess": func(in *Interp, a []Value) Value {
			return st.Bin(smt.OpBvSlt, in.bigGet(a[0].(Ptr)), in.bigGet(a[1].(Ptr)))
		},
		"vreach": func(in *Interp, a []Value) Value {
			in.Reached[a[0].(Str).S] = true
			return nil
		},
		// sameInt(got any, wide model of l op r): helpers for C10-style harnesses
		"bigOfInt": func(in *Interp, a []Value) Value { // *big.Int from int (model)
			return in.newBig(st.Resize(a[0].(*smt.Term), BigW, true))
		},
		"bigEq": func(in *Interp, a []Value) Value {
			return st.Eq(in.bigGet(a[0].(Ptr)), in.bigGet(a[1].(Ptr)))
		},
	}
	// ---- math/big ----
	S["math/big.NewInt"] = func(in *Interp, a []Value) Value { return in.newBig(st.Resize(a[0].(*smt.Term), BigW, true)) }
	bin := func(op smt.Op) Stub {
		return func(in *Interp, a []Value) Value {
			return in.bigSet(a[0].(Ptr), st.Bin(op, in.bigGet(a[1].(Ptr)), in.bigGet(a[2].(Ptr))))
		}
	}
	S["(*math/big.Int).Add"] = bin(smt.OpBvAdd)
	S["(*math/big.Int).Sub"] = bin(smt.OpBvSub)
	S["(*math/big.Int).Mul"] = bin(smt.OpBvMul)
	S["(*math/big.Int).Neg"] = func(in *Interp, a []Value) Value {
		return in.bigSet(a[0].(Ptr), st.Un(smt.OpBvNeg, in.bigGet(a[1].(Ptr))))
	}
	S["(*math/big.Int).Sign"] = func(in *Interp, a []Value) Value {
		x := in.bigGet(a[0].(Ptr))
		z := st.BVConstI(0, BigW)
		if in.Ctx.Branch(st.Eq(x, z)) {
			return st.BVConstI(0, 64)
		}
		if in.Ctx.Branch(st.Bin(smt.OpBvSlt, x, z)) {
			return st.BVConstI(-1, 64)
		}
		return st.BVConstI(1, 64)
	}
	S["(*math/big.Int).Cmp"] = func(in *Interp, a []Value) Value {
		x, y := in.bigGet(a[0].(Ptr)), in.bigGet(a[1].(Ptr))
		return st.Ite(st.Bin(smt.OpBvSlt, x, y), st.BVConstI(-1, 64), st.Ite(st.Eq(x, y), st.BVConstI(0, 64), st.BVConstI(1, 64)))
	}
	// ---- strings.Builder (native model: Str kept in a side table) ----
	S["(*strings.Builder).WriteString"] = func(in *Interp, a []Value) Value {
		p := a[0].(Ptr)
		in.builders[p.O] = in.strConcat(in.builders[p.O], a[1].(Str))
		return Tuple{st.BVConstI(int64(a[1].(Str).Len()), 64), Iface{}}
	}
	S["(*strings.Builder).WriteByte"] = func(in *Interp, a []Value) Value {
		p := a[0].(Ptr)
		in.builders[p.O] = in.strConcat(in.builders[p.O], in.normStr([]*smt.Term{a[1].(*smt.Term)}))
		return Iface{}
	}
	S["(*strings.Builder).Write"] = func(in *Interp, a []Value) Value {
		p := a[0].(Ptr)
		sl := a[1].(SliceV)
		b := make([]*smt.Term, sl.Len)
		for i := range b {
			b[i] = sl.Arr.Cells[sl.Off+i].(*smt.Term)
		}
		in.builders[p.O] = in.strConcat(in.builders[p.O], in.normStr(b))
		return Tuple{st.BVConstI(int64(sl.Len), 64), Iface{}}
	}
	S["(*strings.Builder).String"] = func(in *Interp, a []Value) Value { return in.builders[a[0].(Ptr).O] }
	S["(*strings.Builder).Len"] = func(in *Interp, a []Value) Value {
		return st.BVConstI(int64(in.builders[a[0].(Ptr).O].Len()), 64)
	}
	S["(*strings.Builder).Grow"] = func(in *Interp, a []Value) Value { return nil }
	S["(*strings.Builder).Reset"] = func(in *Interp, a []Value) Value {
		delete(in.builders, a[0].(Ptr).O)
		return nil
	}
	S["(*strings.Builder).Cap"] = func(in *Interp, a []Value) Value {
		return st.BVConstI(int64(in.builders[a[0].(Ptr).O].Len()), 64)
	}
	S["(*strings.Builder).WriteRune"] = func(in *Interp, a []Value) Value {
		p := a[0].(Ptr)
		bs := in.encodeRune(a[1].(*smt.Term))
		in.builders[p.O] = in.strConcat(in.builders[p.O], in.normStr(bs))
		return Tuple{st.BVConstI(int64(len(bs)), 64), Iface{}}
	}
	// ---- misc ----
	S["encoding/json.Unmarshal"] = func(in *Interp, a []Value) Value {
		abortf("json.Unmarshal reached (contract stub not in spike)")
		return nil
	}
}

// Violation is a failed vassert with a model.
type Violation struct {
	Kind   string // assert | panic | monitor
	Msg    string
	Model  map[string]*big.Int
	Replay []string
	Labels []string
	Where  string
}

func (v *Violation) Error() string { return "violation: " + v.Msg }

var _ = fmt.Sprint
var _ types.Type

var _ = regexp.MustCompile
