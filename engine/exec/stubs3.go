package exec

import (
	"go/types"
	"math/big"
	"strconv"

	"gosym/smt"
)

func (in *Interp) bytesOf(v Value) []*smt.Term {
	switch v := v.(type) {
	case Str:
		b := make([]*smt.Term, v.Len())
		for i := range b {
			b[i] = in.strByte(v, i)
		}
		return b
	case SliceV:
		b := make([]*smt.Term, v.Len)
		for i := range b {
			b[i] = v.Arr.Cells[v.Off+i].(*smt.Term)
		}
		return b
	}
	abortf("bytesOf %T", v)
	return nil
}

func (in *Interp) concreteBytes(v Value, what string) []byte {
	ts := in.bytesOf(v)
	out := make([]byte, len(ts))
	for i, t := range ts {
		if !t.IsConst() {
			abortf("unsupported: %s on symbolic bytes", what)
		}
		out[i] = byte(t.Val.Uint64())
	}
	return out
}

func (in *Interp) byteSlice(b []byte) SliceV {
	arr := &Obj{Cells: make([]Value, len(b)), T: types.Typ[types.Uint8]}
	for i, c := range b {
		arr.Cells[i] = in.St.BVConstI(int64(c), 8)
	}
	return SliceV{arr, 0, len(b), len(b)}
}

// indexByte: first i with s[i]==c, forking on the position; -1 if none.
func (in *Interp) indexByte(s []*smt.Term, c *smt.Term) int {
	for i, b := range s {
		if in.Ctx.Branch(in.St.Eq(b, c)) {
			return i
		}
	}
	return -1
}

func (in *Interp) bigNonZero(p Ptr) {
	if in.Ctx.Branch(in.St.Eq(in.bigGet(p), in.St.BVConstI(0, BigW))) {
		in.panicf("division by zero")
	}
}

func (in *Interp) installStubs3() {
	st := in.St
	S := in.Stubs
	i64 := func(v int) Value { return st.BVConstI(int64(v), 64) }
	// ---- sync/atomic, sync ----
	for _, n := range []string{"Uint32", "Int32", "Uint64", "Int64", "Uintptr", "Pointer"} {
		S["sync/atomic.Load"+n] = func(in *Interp, a []Value) Value { return in.load(a[0].(Ptr)) }
		S["sync/atomic.Store"+n] = func(in *Interp, a []Value) Value { in.store(a[0].(Ptr), a[1]); return nil }
		S["sync/atomic.CompareAndSwap"+n] = func(in *Interp, a []Value) Value {
			p := a[0].(Ptr)
			if in.Ctx.Branch(in.eq(in.load(p), a[1])) {
				in.store(p, a[2])
				return st.T
			}
			return st.F
		}
		S["sync/atomic.Add"+n] = func(in *Interp, a []Value) Value {
			p := a[0].(Ptr)
			v := st.Bin(smt.OpBvAdd, in.load(p).(*smt.Term), a[1].(*smt.Term))
			in.store(p, v)
			return v
		}
	}
	for _, n := range []string{"(*sync.Mutex).Lock", "(*sync.Mutex).Unlock", "(*sync.RWMutex).Lock", "(*sync.RWMutex).Unlock", "(*sync.RWMutex).RLock", "(*sync.RWMutex).RUnlock", "(*sync.Mutex).lockSlow", "(*sync.Mutex).unlockSlow"} {
		S[n] = func(in *Interp, a []Value) Value { return nil }
	}
	S["internal/abi.NoEscape"] = func(in *Interp, a []Value) Value { return a[0] }
	S["internal/race.Enabled"] = func(in *Interp, a []Value) Value { return st.F }
	// ---- internal/bytealg ----
	S["internal/bytealg.IndexByteString"] = func(in *Interp, a []Value) Value {
		return i64(in.indexByte(in.bytesOf(a[0]), a[1].(*smt.Term)))
	}
	S["internal/bytealg.IndexByte"] = S["internal/bytealg.IndexByteString"]
	count := func(in *Interp, a []Value) Value {
		n := 0
		for _, b := range in.bytesOf(a[0]) {
			if in.Ctx.Branch(st.Eq(b, a[1].(*smt.Term))) {
				n++
			}
		}
		return i64(n)
	}
	S["internal/bytealg.CountString"] = count
	S["internal/bytealg.Count"] = count
	index := func(in *Interp, a []Value) Value {
		s, t := in.bytesOf(a[0]), in.bytesOf(a[1])
		for i := 0; i+len(t) <= len(s); i++ {
			m := st.T
			for j := range t {
				m = st.And(m, st.Eq(s[i+j], t[j]))
			}
			if in.Ctx.Branch(m) {
				return i64(i)
			}
		}
		return i64(-1)
	}
	S["internal/bytealg.IndexString"] = index
	S["internal/bytealg.Index"] = index
	S["internal/bytealg.Equal"] = func(in *Interp, a []Value) Value {
		x, y := in.bytesOf(a[0]), in.bytesOf(a[1])
		if len(x) != len(y) {
			return st.F
		}
		m := st.T
		for i := range x {
			m = st.And(m, st.Eq(x[i], y[i]))
		}
		return m
	}
	// ---- maps ----
	S["maps.clone"] = func(in *Interp, a []Value) Value {
		m := a[0].(Iface).V.(*MapV)
		if m == nil {
			return a[0]
		}
		n := &MapV{KT: m.KT, VT: m.VT, Keys: append([]Value(nil), m.Keys...), Vals: append([]Value(nil), m.Vals...)}
		return Iface{T: a[0].(Iface).T, V: n}
	}
	// ---- math/big (rest) ----
	bigConc := func(in *Interp, p Ptr, what string) *big.Int {
		t := in.bigGet(p)
		if !t.IsConst() {
			t = in.Ctx.Concretize(t)
			in.StubHits["concretized: "+what]++
		}
		return smt.Signed(t.Val, BigW)
	}
	S["(*math/big.Int).Abs"] = func(in *Interp, a []Value) Value {
		x := in.bigGet(a[1].(Ptr))
		return in.bigSet(a[0].(Ptr), st.Ite(st.Bin(smt.OpBvSlt, x, st.BVConstI(0, BigW)), st.Un(smt.OpBvNeg, x), x))
	}
	S["(*math/big.Int).Append"] = func(in *Interp, a []Value) Value {
		v := bigConc(in, a[0].(Ptr), "big.Int.Append")
		dst := in.concreteBytes(a[1], "big.Int.Append dst")
		return in.byteSlice(v.Append(dst, in.concInt(a[2], "base")))
	}
	S["(*math/big.Int).String"] = func(in *Interp, a []Value) Value {
		return Str{S: bigConc(in, a[0].(Ptr), "big.Int.String").String()}
	}
	S["(*math/big.Int).SetString"] = func(in *Interp, a []Value) Value {
		s := string(in.concreteBytesOrConcretize(a[1], "big.Int.SetString input"))
		v, ok := new(big.Int).SetString(s, in.concInt(a[2], "base"))
		if !ok {
			return Tuple{Ptr{}, st.F}
		}
		return Tuple{in.bigSet(a[0].(Ptr), st.BVConst(v, BigW)), st.T}
	}
	S["(*math/big.Int).Set"] = func(in *Interp, a []Value) Value { return in.bigSet(a[0].(Ptr), in.bigGet(a[1].(Ptr))) }
	S["(*math/big.Int).SetInt64"] = func(in *Interp, a []Value) Value {
		return in.bigSet(a[0].(Ptr), st.Resize(a[1].(*smt.Term), BigW, true))
	}
	S["(*math/big.Int).SetUint64"] = func(in *Interp, a []Value) Value {
		return in.bigSet(a[0].(Ptr), st.Resize(a[1].(*smt.Term), BigW, false))
	}
	S["(*math/big.Int).Lsh"] = func(in *Interp, a []Value) Value {
		n := in.concInt(a[2], "big.Int.Lsh count")
		if n < 0 || n > 150 {
			abortf("unsupported: big.Int.Lsh by %d", n)
		}
		k := st.BVConst(new(big.Int).Lsh(big.NewInt(1), uint(n)), BigW)
		return in.bigSet(a[0].(Ptr), st.Bin(smt.OpBvMul, in.bigGet(a[1].(Ptr)), k))
	}
	S["(*math/big.Int).Quo"] = func(in *Interp, a []Value) Value {
		in.bigNonZero(a[2].(Ptr))
		return in.bigSet(a[0].(Ptr), st.Bin(smt.OpBvSdiv, in.bigGet(a[1].(Ptr)), in.bigGet(a[2].(Ptr))))
	}
	S["(*math/big.Int).QuoRem"] = func(in *Interp, a []Value) Value {
		in.bigNonZero(a[2].(Ptr))
		x, y := in.bigGet(a[1].(Ptr)), in.bigGet(a[2].(Ptr))
		in.bigSet(a[3].(Ptr), st.Bin(smt.OpBvSrem, x, y))
		return Tuple{in.bigSet(a[0].(Ptr), st.Bin(smt.OpBvSdiv, x, y)), a[3]}
	}
	S["(*math/big.Int).BitLen"] = func(in *Interp, a []Value) Value {
		return st.BVConstI(int64(bigConc(in, a[0].(Ptr), "big.Int.BitLen").BitLen()), 64)
	}
	S["(*math/big.Int).IsUint64"] = func(in *Interp, a []Value) Value {
		return st.BoolConst(bigConc(in, a[0].(Ptr), "big.Int.IsUint64").IsUint64())
	}
	S["(*math/big.Int).Uint64"] = func(in *Interp, a []Value) Value { return st.Resize(in.bigGet(a[0].(Ptr)), 64, false) }
	S["(*math/big.Int).Text"] = func(in *Interp, a []Value) Value {
		return Str{S: bigConc(in, a[0].(Ptr), "big.Int.Text").Text(in.concInt(a[1], "base"))}
	}
	S["(*math/big.Int).CmpAbs"] = func(in *Interp, a []Value) Value {
		x, y := bigConc(in, a[0].(Ptr), "big.Int.CmpAbs"), bigConc(in, a[1].(Ptr), "big.Int.CmpAbs")
		return st.BVConstI(int64(x.CmpAbs(y)), 64)
	}
	S["(*math/big.Int).IsInt64"] = func(in *Interp, a []Value) Value {
		x := in.bigGet(a[0].(Ptr))
		lo := st.BVConst(new(big.Int).Neg(new(big.Int).Lsh(big.NewInt(1), 63)), BigW)
		hi := st.BVConst(new(big.Int).Lsh(big.NewInt(1), 63), BigW)
		return st.And(st.Bin(smt.OpBvSle, lo, x), st.Bin(smt.OpBvSlt, x, hi))
	}
	S["(*math/big.Int).Int64"] = func(in *Interp, a []Value) Value { return st.Resize(in.bigGet(a[0].(Ptr)), 64, true) }
	S["(*math/big.Int).Rem"] = func(in *Interp, a []Value) Value {
		in.bigNonZero(a[2].(Ptr))
		return in.bigSet(a[0].(Ptr), st.Bin(smt.OpBvSrem, in.bigGet(a[1].(Ptr)), in.bigGet(a[2].(Ptr))))
	}
	S["(*math/big.Int).DivMod"] = func(in *Interp, a []Value) Value {
		// Euclidean division (modulus non-negative)
		in.bigNonZero(a[2].(Ptr))
		x, y := in.bigGet(a[1].(Ptr)), in.bigGet(a[2].(Ptr))
		q, r := st.Bin(smt.OpBvSdiv, x, y), st.Bin(smt.OpBvSrem, x, y)
		z := st.BVConstI(0, BigW)
		neg := st.Bin(smt.OpBvSlt, r, z)
		ypos := st.Bin(smt.OpBvSlt, z, y)
		one := st.BVConstI(1, BigW)
		q2 := st.Ite(neg, st.Ite(ypos, st.Bin(smt.OpBvSub, q, one), st.Bin(smt.OpBvAdd, q, one)), q)
		r2 := st.Ite(neg, st.Ite(ypos, st.Bin(smt.OpBvAdd, r, y), st.Bin(smt.OpBvSub, r, y)), r)
		in.bigSet(a[3].(Ptr), r2)
		return Tuple{in.bigSet(a[0].(Ptr), q2), a[3]}
	}
	// ---- strconv floats (concrete only) ----
	S["strconv.AppendFloat"] = func(in *Interp, a []Value) Value {
		f := a[1].(*smt.Term)
		if !f.IsConst() {
			f = in.Ctx.Concretize(f)
			in.StubHits["concretized: strconv.AppendFloat of a symbolic float"]++
		}
		fc := a[2].(*smt.Term)
		if !fc.IsConst() {
			fc = in.Ctx.Concretize(fc)
		}
		fmtc := byte(fc.Val.Uint64())
		return in.appendBytes(a[0].(SliceV), strconv.AppendFloat(nil, smt.FPVal(f), fmtc, in.concInt(a[3], "prec"), in.concInt(a[4], "bitsize")))
	}
	S["strconv.ParseFloat"] = func(in *Interp, a []Value) Value {
		s := string(in.concreteBytesOrConcretize(a[0], "strconv.ParseFloat input"))
		f, err := strconv.ParseFloat(s, in.concInt(a[1], "bitsize"))
		if err != nil {
			// *strconv.NumError built by the interpreted strconv code would need Err identity
			// (ErrRange / ErrSyntax): construct it through the package's own helpers
			p := in.Prog.ImportedPackage("strconv")
			name := "syntaxError"
			if ne, ok := err.(*strconv.NumError); ok && ne.Err == strconv.ErrRange {
				name = "rangeError"
			}
			e := in.callFunction(p.Func(name), []Value{Str{S: "ParseFloat"}, Str{S: s}})
			return Tuple{st.FPConst(f), Iface{T: e.(Ptr).O.T, V: e}}
		}
		return Tuple{st.FPConst(f), Iface{}}
	}
}

// errString is the dynamic type used for errors produced by stubs (a named string type).
var errString types.Type = types.NewNamed(types.NewTypeName(0, nil, "stubError", nil), types.Typ[types.String], nil)
