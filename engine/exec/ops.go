package exec

import (
	"go/token"
	"go/types"
	"math"
	"unicode/utf8"

	"golang.org/x/tools/go/ssa"

	"gosym/smt"
)

func (in *Interp) unop(fr *frame, instr *ssa.UnOp) Value {
	x := in.get(fr, instr.X)
	switch instr.Op {
	case token.MUL: // load
		return in.load(x.(Ptr))
	case token.NOT:
		return in.St.Not(x.(*smt.Term))
	case token.SUB:
		if t := x.(*smt.Term); t.Sort.K == smt.KFP {
			return in.St.FpUn(smt.OpFpNeg, t, "")
		}
		return in.St.Un(smt.OpBvNeg, x.(*smt.Term))
	case token.XOR:
		return in.St.Un(smt.OpBvNot, x.(*smt.Term))
	case token.ARROW:
		abortf("channel receive not supported")
	}
	abortf("unop %v", instr.Op)
	return nil
}

func (in *Interp) strEq(a, b Str) *smt.Term {
	if a.Len() != b.Len() {
		return in.St.F
	}
	if a.B == nil && b.B == nil {
		return in.St.BoolConst(a.S == b.S)
	}
	r := in.St.T
	for i := 0; i < a.Len(); i++ {
		r = in.St.And(r, in.St.Eq(in.strByte(a, i), in.strByte(b, i)))
	}
	return r
}

// strLess: lexicographic byte order a < b
func (in *Interp) strLess(a, b Str) *smt.Term {
	if a.B == nil && b.B == nil {
		return in.St.BoolConst(a.S < b.S)
	}
	n := min(a.Len(), b.Len())
	// build from the end
	res := in.St.BoolConst(a.Len() < b.Len())
	for i := n - 1; i >= 0; i-- {
		x, y := in.strByte(a, i), in.strByte(b, i)
		res = in.St.Ite(in.St.Bin(smt.OpBvUlt, x, y), in.St.T, in.St.Ite(in.St.Eq(x, y), res, in.St.F))
	}
	return res
}

func (in *Interp) strConcat(a, b Str) Str {
	if a.B == nil && b.B == nil {
		return Str{S: a.S + b.S}
	}
	n := a.Len() + b.Len()
	if n == 0 {
		return Str{}
	}
	out := make([]*smt.Term, 0, n)
	for i := 0; i < a.Len(); i++ {
		out = append(out, in.strByte(a, i))
	}
	for i := 0; i < b.Len(); i++ {
		out = append(out, in.strByte(b, i))
	}
	return in.normStr(out)
}

// normStr turns an all-constant byte vector back into a native string.
func (in *Interp) normStr(b []*smt.Term) Str {
	bs := make([]byte, len(b))
	for i, t := range b {
		if !t.IsConst() {
			return Str{B: b}
		}
		bs[i] = byte(t.Val.Uint64())
	}
	return Str{S: string(bs)}
}

// eq returns the (possibly symbolic) equality of two values of the same static type.
func (in *Interp) eq(a, b Value) *smt.Term {
	switch a := a.(type) {
	case *smt.Term:
		if a.Sort.K == smt.KFP {
			return in.St.FpBin(smt.OpFpEq, a, b.(*smt.Term))
		}
		return in.St.Eq(a, b.(*smt.Term))
	case Str:
		return in.strEq(a, b.(Str))
	case Ptr:
		return in.St.BoolConst(a == b.(Ptr))
	case Iface:
		bi := b.(Iface)
		if a.T == nil || bi.T == nil {
			return in.St.BoolConst(a.T == nil && bi.T == nil)
		}
		if !types.Identical(a.T, bi.T) {
			return in.St.F
		}
		if !types.Comparable(a.T) {
			in.panicf("runtime error: comparing uncomparable type %v", a.T)
		}
		return in.eq(a.V, bi.V)
	case *Obj:
		bo := b.(*Obj)
		r := in.St.T
		for i := range a.Cells {
			r = in.St.And(r, in.eq(a.Cells[i], bo.Cells[i]))
		}
		return r
	case SliceV:
		bs := b.(SliceV)
		return in.St.BoolConst(a.Arr == nil && bs.Arr == nil && a.Len == 0 && bs.Len == 0 || a.Arr == nil && bs.Arr == nil)
	case *MapV:
		return in.St.BoolConst(a == b.(*MapV))
	case *Closure:
		bc, _ := b.(*Closure)
		return in.St.BoolConst(a == nil && bc == nil)
	case *ChanV:
		return in.St.BoolConst(a == b.(*ChanV))
	case nil:
		return in.St.BoolConst(b == nil)
	}
	abortf("eq on %T", a)
	return nil
}

func (in *Interp) binop(op token.Token, x, y Value, xt types.Type) Value {
	switch op {
	case token.EQL:
		return in.eq(x, y)
	case token.NEQ:
		return in.St.Not(in.eq(x, y))
	}
	if xs, ok := x.(Str); ok {
		ys := y.(Str)
		switch op {
		case token.ADD:
			return in.strConcat(xs, ys)
		case token.LSS:
			return in.strLess(xs, ys)
		case token.GTR:
			return in.strLess(ys, xs)
		case token.LEQ:
			return in.St.Not(in.strLess(ys, xs))
		case token.GEQ:
			return in.St.Not(in.strLess(xs, ys))
		}
	}
	if xt0, ok := x.(*smt.Term); ok && xt0.Sort.K == smt.KFP {
		yt0 := y.(*smt.Term)
		st := in.St
		switch op {
		case token.ADD:
			return st.FpBin(smt.OpFpAdd, xt0, yt0)
		case token.SUB:
			return st.FpBin(smt.OpFpSub, xt0, yt0)
		case token.MUL:
			return st.FpBin(smt.OpFpMul, xt0, yt0)
		case token.QUO:
			return st.FpBin(smt.OpFpDiv, xt0, yt0)
		case token.LSS:
			return st.FpBin(smt.OpFpLt, xt0, yt0)
		case token.LEQ:
			return st.FpBin(smt.OpFpLe, xt0, yt0)
		case token.GTR:
			return st.FpBin(smt.OpFpLt, yt0, xt0)
		case token.GEQ:
			return st.FpBin(smt.OpFpLe, yt0, xt0)
		}
	}
	a, okA := x.(*smt.Term)
	b, okB := y.(*smt.Term)
	if !okA || !okB {
		abortf("binop %v on %T, %T", op, x, y)
	}
	_, signed, _ := intInfo(xt)
	st := in.St
	if a.Sort.K == smt.KBool {
		switch op {
		case token.AND, token.LAND:
			return st.And(a, b)
		case token.OR, token.LOR:
			return st.Or(a, b)
		}
	}
	switch op {
	case token.ADD:
		return st.Bin(smt.OpBvAdd, a, b)
	case token.SUB:
		return st.Bin(smt.OpBvSub, a, b)
	case token.MUL:
		return st.Bin(smt.OpBvMul, a, b)
	case token.QUO, token.REM:
		if in.Ctx.Branch(st.Eq(b, st.BVConstI(0, b.Sort.W))) {
			in.panicf("integer divide by zero")
		}
		if signed {
			if op == token.QUO {
				return st.Bin(smt.OpBvSdiv, a, b)
			}
			return st.Bin(smt.OpBvSrem, a, b)
		}
		if op == token.QUO {
			return st.Bin(smt.OpBvUdiv, a, b)
		}
		return st.Bin(smt.OpBvUrem, a, b)
	case token.AND:
		return st.Bin(smt.OpBvAnd, a, b)
	case token.OR:
		return st.Bin(smt.OpBvOr, a, b)
	case token.XOR:
		return st.Bin(smt.OpBvXor, a, b)
	case token.AND_NOT:
		return st.Bin(smt.OpBvAnd, a, st.Un(smt.OpBvNot, b))
	case token.SHL, token.SHR:
		// shift count may have a different width: resize (unsigned) to a's width, saturating
		sh := b
		if sh.Sort.W != a.Sort.W {
			if sh.Sort.W > a.Sort.W {
				// large counts shift everything out
				big := st.Bin(smt.OpBvUle, st.BVConstI(int64(a.Sort.W), sh.Sort.W), sh)
				sh = st.Ite(big, st.BVConstI(int64(a.Sort.W), a.Sort.W), st.Resize(sh, a.Sort.W, false))
			} else {
				sh = st.Resize(sh, a.Sort.W, false)
			}
		}
		if op == token.SHL {
			return st.Bin(smt.OpBvShl, a, sh)
		}
		if signed {
			return st.Bin(smt.OpBvAshr, a, sh)
		}
		return st.Bin(smt.OpBvLshr, a, sh)
	case token.LSS:
		if signed {
			return st.Bin(smt.OpBvSlt, a, b)
		}
		return st.Bin(smt.OpBvUlt, a, b)
	case token.LEQ:
		if signed {
			return st.Bin(smt.OpBvSle, a, b)
		}
		return st.Bin(smt.OpBvUle, a, b)
	case token.GTR:
		if signed {
			return st.Bin(smt.OpBvSlt, b, a)
		}
		return st.Bin(smt.OpBvUlt, b, a)
	case token.GEQ:
		if signed {
			return st.Bin(smt.OpBvSle, b, a)
		}
		return st.Bin(smt.OpBvUle, b, a)
	}
	abortf("binop %v", op)
	return nil
}

func (in *Interp) convert(x Value, from, to types.Type) Value {
	fw, fsigned, fInt := intInfo(from)
	tw, _, tInt := intInfo(to)
	_ = fw
	switch {
	case fInt && tInt:
		return in.St.Resize(x.(*smt.Term), tw, fsigned)
	case isString(to) && fInt: // string(rune)
		t := x.(*smt.Term)
		if !t.IsConst() {
			_, signed, _ := intInfo(from)
			return in.normStr(in.encodeRune(in.St.Resize(t, 32, signed)))
		}
		return Str{S: string(rune(smt.Signed(t.Val, t.Sort.W).Int64()))}
	case isString(to):
		// []byte or []rune -> string
		sl := x.(SliceV)
		et := from.Underlying().(*types.Slice).Elem()
		if w, _, _ := intInfo(et); w == 8 {
			b := make([]*smt.Term, sl.Len)
			for i := 0; i < sl.Len; i++ {
				b[i] = sl.Arr.Cells[sl.Off+i].(*smt.Term)
			}
			return in.normStr(b)
		}
		var rs []rune
		symb := false
		for i := 0; i < sl.Len; i++ {
			t := sl.Arr.Cells[sl.Off+i].(*smt.Term)
			if !t.IsConst() {
				symb = true
			}
			rs = append(rs, rune(0))
		}
		if symb {
			var out []*smt.Term
			for i := 0; i < sl.Len; i++ {
				out = append(out, in.encodeRune(sl.Arr.Cells[sl.Off+i].(*smt.Term))...)
			}
			if len(out) == 0 {
				return Str{}
			}
			return in.normStr(out)
		}
		rs = rs[:0]
		for i := 0; i < sl.Len; i++ {
			t := sl.Arr.Cells[sl.Off+i].(*smt.Term)
			rs = append(rs, rune(smt.Signed(t.Val, 32).Int64()))
		}
		return Str{S: string(rs)}
	case isString(from):
		s := x.(Str)
		et := to.Underlying().(*types.Slice).Elem()
		if w, _, _ := intInfo(et); w == 8 {
			arr := &Obj{Cells: make([]Value, s.Len()), T: et}
			for i := range arr.Cells {
				arr.Cells[i] = in.strByte(s, i)
			}
			return SliceV{arr, 0, s.Len(), s.Len()}
		}
		// []rune(s)
		var cells []Value
		for pos := 0; pos < s.Len(); {
			r, size := in.decodeRune(s, pos)
			cells = append(cells, r)
			pos += size
		}
		return SliceV{&Obj{Cells: cells, T: et}, 0, len(cells), len(cells)}
	}
	isFloat := func(t types.Type) bool {
		b, ok := t.Underlying().(*types.Basic)
		return ok && b.Info()&types.IsFloat != 0
	}
	if isFloat(from) {
		if tInt {
			return in.St.FpToSInt(x.(*smt.Term), tw)
		}
		return x
	}
	if isFloat(to) && fInt {
		return in.St.FpFromInt(x.(*smt.Term), fsigned)
	}
	if _, ok := to.Underlying().(*types.Pointer); ok {
		return x
	}
	if b, ok := to.Underlying().(*types.Basic); ok && b.Kind() == types.UnsafePointer {
		return x
	}
	abortf("convert %v -> %v", from, to)
	return nil
}

// encodeRune: UTF-8 encoding of a (possibly symbolic) rune (BV32, signed) with Go's
// string(rune) semantics: invalid runes and surrogates become U+FFFD. Forks on the
// encoded length.
func (in *Interp) encodeRune(r *smt.Term) []*smt.Term {
	st := in.St
	if r.IsConst() {
		bs := []byte(string(rune(smt.Signed(r.Val, 32).Int64())))
		out := make([]*smt.Term, len(bs))
		for i, b := range bs {
			out[i] = st.BVConstI(int64(b), 8)
		}
		return out
	}
	c32 := func(v int64) *smt.Term { return st.BVConstI(v, 32) }
	ult := func(a *smt.Term, v int64) *smt.Term { return st.Bin(smt.OpBvUlt, a, c32(v)) }
	b8 := func(x *smt.Term) *smt.Term { return st.Resize(x, 8, false) }
	shr := func(x *smt.Term, n int64) *smt.Term { return st.Bin(smt.OpBvLshr, x, c32(n)) }
	and := func(x *smt.Term, m int64) *smt.Term { return st.Bin(smt.OpBvAnd, x, c32(m)) }
	or := func(x *smt.Term, m int64) *smt.Term { return st.Bin(smt.OpBvOr, x, c32(m)) }
	fffd := []*smt.Term{st.BVConstI(0xEF, 8), st.BVConstI(0xBF, 8), st.BVConstI(0xBD, 8)}
	if in.Ctx.Branch(ult(r, 0x80)) {
		return []*smt.Term{b8(r)}
	}
	if in.Ctx.Branch(ult(r, 0x800)) {
		return []*smt.Term{b8(or(shr(r, 6), 0xC0)), b8(or(and(r, 0x3F), 0x80))}
	}
	if in.Ctx.Branch(ult(r, 0x10000)) {
		if in.Ctx.Branch(st.And(st.Not(ult(r, 0xD800)), ult(r, 0xE000))) {
			return fffd
		}
		return []*smt.Term{b8(or(shr(r, 12), 0xE0)), b8(or(and(shr(r, 6), 0x3F), 0x80)), b8(or(and(r, 0x3F), 0x80))}
	}
	if in.Ctx.Branch(ult(r, 0x110000)) {
		return []*smt.Term{b8(or(shr(r, 18), 0xF0)), b8(or(and(shr(r, 12), 0x3F), 0x80)), b8(or(and(shr(r, 6), 0x3F), 0x80)), b8(or(and(r, 0x3F), 0x80))}
	}
	return fffd
}

// decodeRune implements Go's UTF-8 decoding of s[pos:] (as in `for range` and
// []rune(s)): returns the rune (BV32) and its size; forks on byte classes.
func (in *Interp) decodeRune(s Str, pos int) (*smt.Term, int) {
	st := in.St
	if s.B == nil {
		r, size := utf8.DecodeRuneInString(s.S[pos:])
		return st.BVConstI(int64(r), 32), size
	}
	n := s.Len() - pos
	b0 := s.B[pos]
	c := func(v int64) *smt.Term { return st.BVConstI(v, 8) }
	between := func(x *smt.Term, lo, hi int64) *smt.Term {
		return st.And(st.Bin(smt.OpBvUle, c(lo), x), st.Bin(smt.OpBvUle, x, c(hi)))
	}
	z32 := func(x *smt.Term) *smt.Term { return st.Resize(x, 32, false) }
	runeErr := st.BVConstI(utf8.RuneError, 32)
	if in.Ctx.Branch(st.Bin(smt.OpBvUlt, b0, c(0x80))) {
		return z32(b0), 1
	}
	// 2-byte: C2..DF
	if in.Ctx.Branch(between(b0, 0xC2, 0xDF)) {
		if n < 2 || !in.Ctx.Branch(between(s.B[pos+1], 0x80, 0xBF)) {
			return runeErr, 1
		}
		r := st.Bin(smt.OpBvOr, st.Bin(smt.OpBvShl, z32(st.Bin(smt.OpBvAnd, b0, c(0x1F))), st.BVConstI(6, 32)), z32(st.Bin(smt.OpBvAnd, s.B[pos+1], c(0x3F))))
		return r, 2
	}
	// 3-byte: E0..EF with second-byte ranges
	if in.Ctx.Branch(between(b0, 0xE0, 0xEF)) {
		if n < 2 {
			return runeErr, 1
		}
		lo, hi := int64(0x80), int64(0xBF)
		if in.Ctx.Branch(st.Eq(b0, c(0xE0))) {
			lo = 0xA0
		} else if in.Ctx.Branch(st.Eq(b0, c(0xED))) {
			hi = 0x9F
		}
		if !in.Ctx.Branch(between(s.B[pos+1], lo, hi)) {
			return runeErr, 1
		}
		if n < 3 || !in.Ctx.Branch(between(s.B[pos+2], 0x80, 0xBF)) {
			return runeErr, 1
		}
		r := st.Bin(smt.OpBvOr, st.Bin(smt.OpBvOr,
			st.Bin(smt.OpBvShl, z32(st.Bin(smt.OpBvAnd, b0, c(0x0F))), st.BVConstI(12, 32)),
			st.Bin(smt.OpBvShl, z32(st.Bin(smt.OpBvAnd, s.B[pos+1], c(0x3F))), st.BVConstI(6, 32))),
			z32(st.Bin(smt.OpBvAnd, s.B[pos+2], c(0x3F))))
		return r, 3
	}
	// 4-byte: F0..F4
	if in.Ctx.Branch(between(b0, 0xF0, 0xF4)) {
		if n < 2 {
			return runeErr, 1
		}
		lo, hi := int64(0x80), int64(0xBF)
		if in.Ctx.Branch(st.Eq(b0, c(0xF0))) {
			lo = 0x90
		} else if in.Ctx.Branch(st.Eq(b0, c(0xF4))) {
			hi = 0x8F
		}
		if !in.Ctx.Branch(between(s.B[pos+1], lo, hi)) {
			return runeErr, 1
		}
		if n < 3 || !in.Ctx.Branch(between(s.B[pos+2], 0x80, 0xBF)) {
			return runeErr, 1
		}
		if n < 4 || !in.Ctx.Branch(between(s.B[pos+3], 0x80, 0xBF)) {
			return runeErr, 1
		}
		r := st.Bin(smt.OpBvOr, st.Bin(smt.OpBvOr, st.Bin(smt.OpBvOr,
			st.Bin(smt.OpBvShl, z32(st.Bin(smt.OpBvAnd, b0, c(0x07))), st.BVConstI(18, 32)),
			st.Bin(smt.OpBvShl, z32(st.Bin(smt.OpBvAnd, s.B[pos+1], c(0x3F))), st.BVConstI(12, 32))),
			st.Bin(smt.OpBvShl, z32(st.Bin(smt.OpBvAnd, s.B[pos+2], c(0x3F))), st.BVConstI(6, 32))),
			z32(st.Bin(smt.OpBvAnd, s.B[pos+3], c(0x3F))))
		return r, 4
	}
	return runeErr, 1
}

// ---- maps ----

func (in *Interp) mapFind(m *MapV, k Value) int {
	if m == nil {
		return -1
	}
	for i, kk := range m.Keys {
		if in.Ctx.Branch(in.eq(kk, k)) {
			return i
		}
	}
	return -1
}

func (in *Interp) mapGet(m *MapV, k Value) (Value, bool) {
	i := in.mapFind(m, k)
	if i < 0 {
		return nil, false
	}
	return m.Vals[i], true
}

func (in *Interp) mapSet(m *MapV, k, v Value) {
	if i := in.mapFind(m, k); i >= 0 {
		if m.Frozen {
			in.sharedWrite("map update", m.Vals[i], v)
		}
		m.Vals[i] = copyVal(v)
		return
	}
	if m.Frozen {
		in.sharedWrite("map insert", nil, v)
	}
	m.Keys = append(m.Keys, copyVal(k))
	m.Vals = append(m.Vals, copyVal(v))
}

func (in *Interp) mapDelete(m *MapV, k Value) {
	if i := in.mapFind(m, k); i >= 0 {
		if m.Frozen {
			in.sharedWrite("map delete", m.Vals[i], nil)
		}
		m.Keys = append(m.Keys[:i:i], m.Keys[i+1:]...)
		m.Vals = append(m.Vals[:i:i], m.Vals[i+1:]...)
	}
}

// ---- range ----

func (in *Interp) rangeIter(x Value) Value {
	switch x := x.(type) {
	case *MapV:
		it := &iterV{m: x}
		if x != nil {
			it.keys = append(it.keys, x.Keys...)
			it.vals = append(it.vals, x.Vals...)
		}
		return it
	case Str:
		return &iterV{s: x}
	}
	abortf("range over %T", x)
	return nil
}

func (in *Interp) next(it *iterV, instr *ssa.Next) Value {
	st := in.St
	if instr.IsString {
		if it.pos >= it.s.Len() {
			return Tuple{st.F, st.BVConstI(0, 64), st.BVConstI(0, 32)}
		}
		r, size := in.decodeRune(it.s, it.pos)
		p := it.pos
		it.pos += size
		return Tuple{st.T, st.BVConstI(int64(p), 64), r}
	}
	// map: insertion order (deterministic); other orders are a later refinement
	for it.i < len(it.keys) {
		k := it.keys[it.i]
		it.i++
		// entry may have been deleted during iteration
		if j := in.mapFindConcrete(it.m, k); j >= 0 {
			return Tuple{st.T, k, copyVal(it.m.Vals[j])}
		}
	}
	tup := instr.Type().(*types.Tuple)
	z := func(t types.Type) Value {
		if b, ok := t.(*types.Basic); ok && b.Kind() == types.Invalid {
			return nil
		}
		return in.zero(t)
	}
	return Tuple{st.F, z(tup.At(1).Type()), z(tup.At(2).Type())}
}

func (in *Interp) mapFindConcrete(m *MapV, k Value) int {
	for i, kk := range m.Keys {
		if e := in.eq(kk, k); e.IsTrue() {
			return i
		}
	}
	return -1
}

// ---- builtins ----

func (in *Interp) builtin(name string, args []Value, c *ssa.CallCommon) Value {
	st := in.St
	switch name {
	case "len":
		switch x := args[0].(type) {
		case Str:
			return st.BVConstI(int64(x.Len()), 64)
		case SliceV:
			return st.BVConstI(int64(x.Len), 64)
		case *MapV:
			if x == nil {
				return st.BVConstI(0, 64)
			}
			return st.BVConstI(int64(len(x.Keys)), 64)
		case *Obj:
			return st.BVConstI(int64(len(x.Cells)), 64)
		case Ptr:
			return st.BVConstI(int64(len(x.O.Cells[x.I].(*Obj).Cells)), 64)
		}
	case "cap":
		switch x := args[0].(type) {
		case SliceV:
			return st.BVConstI(int64(x.Cap), 64)
		case *Obj:
			return st.BVConstI(int64(len(x.Cells)), 64)
		}
	case "append":
		s := args[0].(SliceV)
		var add []Value
		switch y := args[1].(type) {
		case SliceV:
			for i := 0; i < y.Len; i++ {
				add = append(add, y.Arr.Cells[y.Off+i])
			}
		case Str:
			for i := 0; i < y.Len(); i++ {
				add = append(add, in.strByte(y, i))
			}
		}
		if len(add) == 0 {
			return s
		}
		if s.Len+len(add) <= s.Cap {
			for i, v := range add {
				if s.Arr.Frozen {
					in.sharedWrite("append in place", s.Arr.Cells[s.Off+s.Len+i], v)
				}
				s.Arr.Cells[s.Off+s.Len+i] = copyVal(v)
			}
			return SliceV{s.Arr, s.Off, s.Len + len(add), s.Cap}
		}
		ncap := max(2*s.Cap, s.Len+len(add))
		et := c.Args[0].Type().Underlying().(*types.Slice).Elem()
		arr := &Obj{Cells: make([]Value, ncap), T: et}
		for i := 0; i < s.Len; i++ {
			arr.Cells[i] = s.Arr.Cells[s.Off+i]
		}
		for i, v := range add {
			arr.Cells[s.Len+i] = copyVal(v)
		}
		z := in.zero(et)
		for i := s.Len + len(add); i < ncap; i++ {
			arr.Cells[i] = copyVal(z)
		}
		return SliceV{arr, 0, s.Len + len(add), ncap}
	case "copy":
		d := args[0].(SliceV)
		n := 0
		switch y := args[1].(type) {
		case SliceV:
			n = min(d.Len, y.Len)
			tmp := make([]Value, n)
			for i := 0; i < n; i++ {
				tmp[i] = y.Arr.Cells[y.Off+i]
			}
			for i := 0; i < n; i++ {
				if d.Arr.Frozen {
					in.sharedWrite("copy", d.Arr.Cells[d.Off+i], tmp[i])
				}
				d.Arr.Cells[d.Off+i] = copyVal(tmp[i])
			}
		case Str:
			n = min(d.Len, y.Len())
			for i := 0; i < n; i++ {
				d.Arr.Cells[d.Off+i] = in.strByte(y, i)
			}
		}
		return st.BVConstI(int64(n), 64)
	case "delete":
		in.mapDelete(args[0].(*MapV), args[1])
		return nil
	case "min", "max":
		r := args[0]
		for _, a := range args[1:] {
			if rs, ok := r.(Str); ok {
				as := a.(Str)
				less := in.strLess(as, rs)
				if name == "max" {
					less = in.strLess(rs, as)
				}
				if in.Ctx.Branch(less) {
					r = as
				}
				continue
			}
			x, y := r.(*smt.Term), a.(*smt.Term)
			if x.Sort.K == smt.KFP {
				// Go's min/max propagate NaN; fp.min/fp.max do not: build it explicitly
				nan := st.Or(st.FpUn(smt.OpFpIsNaN, x, ""), st.FpUn(smt.OpFpIsNaN, y, ""))
				op := smt.OpFpMin
				if name == "max" {
					op = smt.OpFpMax
				}
				r = st.Ite(nan, st.FPConst(math.NaN()), st.FpBin(op, x, y))
				continue
			}
			_, signed, _ := intInfo(c.Args[0].Type())
			op := smt.OpBvUlt
			if signed {
				op = smt.OpBvSlt
			}
			if name == "min" {
				r = st.Ite(st.Bin(op, y, x), y, x)
			} else {
				r = st.Ite(st.Bin(op, x, y), y, x)
			}
		}
		return r
	case "panic":
		panic(&TargetPanic{V: args[0], Msg: "explicit panic: " + in.describe(args[0])})
	case "recover":
		for i := len(in.curFrame) - 1; i >= 0; i-- {
			if f := in.curFrame[i]; f.panicking != nil {
				p := f.panicking
				f.panicking = nil
				if p.V != nil {
					return p.V
				}
				return Iface{T: types.Typ[types.String], V: Str{S: p.Msg}}
			}
		}
		return Iface{}
	case "print", "println":
		return nil
	case "ssa:wrapnilchk":
		return args[0]
	case "String": // unsafe.String(ptr, len)
		p := args[0].(Ptr)
		n := in.concInt(args[1], "unsafe.String len")
		if n == 0 {
			return Str{}
		}
		b := make([]*smt.Term, n)
		for i := range b {
			b[i] = p.O.Cells[p.I+i].(*smt.Term)
		}
		return in.normStr(b)
	case "StringData":
		s := args[0].(Str)
		arr := &Obj{Cells: make([]Value, s.Len()), T: types.Typ[types.Uint8]}
		for i := range arr.Cells {
			arr.Cells[i] = in.strByte(s, i)
		}
		return Ptr{O: arr, I: 0}
	case "SliceData":
		sl := args[0].(SliceV)
		return Ptr{O: sl.Arr, I: sl.Off}
	case "close":
		args[0].(*ChanV).Closed = true
		return nil
	}
	abortf("builtin %s on %T", name, args[0])
	return nil
}
