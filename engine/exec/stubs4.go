package exec

import (
	"fmt"
	"go/types"
	"regexp"
	"strings"

	"gosym/smt"
)

// natives: opaque host objects (e.g. *regexp.Regexp) keyed by their handle object.
func (in *Interp) newNative(v any) Ptr {
	o := &Obj{Cells: []Value{nil}}
	if in.natives == nil {
		in.natives = map[*Obj]any{}
	}
	in.natives[o] = v
	return Ptr{O: o, I: 0}
}

func (in *Interp) nativeOf(p Ptr) any {
	if p.O == nil {
		in.panicf("nil pointer dereference (native object)")
	}
	if v, ok := in.natives[p.O]; ok {
		return v
	}
	if in.Tmpl != nil {
		if v, ok := in.Tmpl.natives[p.O]; ok {
			return v
		}
	}
	abortf("unsupported: unknown native object")
	return nil
}

func (in *Interp) intSlice(xs []int) SliceV {
	arr := &Obj{Cells: make([]Value, len(xs)), T: types.Typ[types.Int]}
	for i, x := range xs {
		arr.Cells[i] = in.St.BVConstI(int64(x), 64)
	}
	return SliceV{arr, 0, len(xs), len(xs)}
}

func (in *Interp) strSlice(xs []string) SliceV {
	arr := &Obj{Cells: make([]Value, len(xs)), T: types.Typ[types.String]}
	for i, x := range xs {
		arr.Cells[i] = Str{S: x}
	}
	return SliceV{arr, 0, len(xs), len(xs)}
}

// goError builds an error value through the interpreted errors.New.
func (in *Interp) goError(msg string) Value {
	p := in.Prog.ImportedPackage("errors")
	if p == nil {
		abortf("unsupported: package errors not in the program")
	}
	return in.callFunction(p.Func("New"), []Value{Str{S: msg}})
}

// fmtArg converts an interpreted value into a host value for fmt.
func (in *Interp) fmtArg(v Value) any {
	switch v := v.(type) {
	case Iface:
		if v.T == nil {
			return nil
		}
		// errors and Stringers: call the interpreted method
		if sel := in.Prog.MethodSets.MethodSet(v.T).Lookup(nil, "Error"); sel != nil {
			if m := in.Prog.MethodValue(sel); m != nil {
				if s, ok := in.callFunction(m, []Value{v.V}).(Str); ok {
					return fmt.Errorf("%s", in.opaqueStr(s))
				}
			}
		}
		return in.fmtArg(v.V)
	case Str:
		return in.opaqueStr(v)
	case *smt.Term:
		if !v.IsConst() {
			in.StubHits["fmt: symbolic scalar rendered opaquely"]++
			return "<symbolic>"
		}
		switch v.Sort.K {
		case smt.KBool:
			return v.Val.Sign() != 0
		case smt.KFP:
			return smt.FPVal(v)
		}
		return smt.Signed(v.Val, v.Sort.W).Int64()
	case SliceV:
		var out []any
		for i := 0; i < v.Len; i++ {
			out = append(out, in.fmtArg(v.Arr.Cells[v.Off+i]))
		}
		return out
	case *Obj:
		// arrays such as [2]string
		var out []any
		for _, c := range v.Cells {
			out = append(out, in.fmtArg(c))
		}
		return out
	}
	return fmt.Sprintf("<%T>", v)
}

func (in *Interp) opaqueStr(s Str) string {
	if s.B == nil {
		return s.S
	}
	in.StubHits["fmt: symbolic string rendered opaquely"]++
	return "<symbolic string>"
}

func (in *Interp) fmtArgs(v Value) []any {
	sl := v.(SliceV)
	out := make([]any, sl.Len)
	for i := range out {
		out[i] = in.fmtArg(sl.Arr.Cells[sl.Off+i])
	}
	return out
}

type syncMapModel struct{ keys, vals []Value }

func (in *Interp) installStubs4() {
	st := in.St
	S := in.Stubs
	// ---- fmt ----
	S["fmt.Sprintf"] = func(in *Interp, a []Value) Value {
		return Str{S: fmt.Sprintf(in.concStr(a[0]), in.fmtArgs(a[1])...)}
	}
	S["fmt.Sprint"] = func(in *Interp, a []Value) Value { return Str{S: fmt.Sprint(in.fmtArgs(a[0])...)} }
	S["fmt.Errorf"] = func(in *Interp, a []Value) Value {
		return in.goError(fmt.Errorf(in.concStr(a[0]), in.fmtArgs(a[1])...).Error())
	}
	// ---- sync.Map (sequentially consistent model; its thread safety is trusted) ----
	smap := func(in *Interp, p Ptr) *syncMapModel {
		if in.syncMaps == nil {
			in.syncMaps = map[*Obj]*syncMapModel{}
		}
		m := in.syncMaps[p.O]
		if m == nil {
			m = &syncMapModel{}
			if in.Tmpl != nil {
				if tm := in.Tmpl.syncMaps[p.O]; tm != nil {
					*m = *tm
				}
			}
			in.syncMaps[p.O] = m
		}
		return m
	}
	S["(*sync.Map).Load"] = func(in *Interp, a []Value) Value {
		m := smap(in, a[0].(Ptr))
		for i, k := range m.keys {
			if in.sameValue(k, a[1]).IsTrue() {
				return Tuple{m.vals[i], st.T}
			}
		}
		return Tuple{Iface{}, st.F}
	}
	S["(*sync.Map).Store"] = func(in *Interp, a []Value) Value {
		m := smap(in, a[0].(Ptr))
		for i, k := range m.keys {
			if in.sameValue(k, a[1]).IsTrue() {
				m.vals[i] = a[2]
				return nil
			}
		}
		m.keys = append(m.keys, a[1])
		m.vals = append(m.vals, a[2])
		return nil
	}
	S["(*sync.Once).Do"] = func(in *Interp, a []Value) Value {
		p := a[0].(Ptr)
		if in.onces == nil {
			in.onces = map[*Obj]bool{}
		}
		if !in.onces[p.O] {
			in.onces[p.O] = true
			in.callValue(a[1], nil)
		}
		return nil
	}
	// sync.Pool: a LIFO free list per pool object (the contract allows any element or New())
	S["(*sync.Pool).Get"] = func(in *Interp, a []Value) Value {
		p := a[0].(Ptr)
		po := p.O.Cells[p.I].(*Obj)
		if l := in.pools[po]; len(l) > 0 {
			v := l[len(l)-1]
			in.pools[po] = l[:len(l)-1]
			return v
		}
		for _, c := range po.Cells {
			if cl, ok := c.(*Closure); ok && cl != nil {
				return in.callValue(cl, nil)
			}
		}
		return Iface{}
	}
	S["(*sync.Pool).Put"] = func(in *Interp, a []Value) Value {
		p := a[0].(Ptr)
		if in.pools == nil {
			in.pools = map[*Obj][]Value{}
		}
		po := p.O.Cells[p.I].(*Obj)
		in.pools[po] = append(in.pools[po], a[1])
		return nil
	}
	// ---- regexp: Go's engine is trusted and run natively on concrete operands ----
	S["regexp.Compile"] = func(in *Interp, a []Value) Value {
		s0 := a[0].(Str)
		s := Str{S: in.concretizeStr(s0, "regexp.Compile pattern")}
		r, err := regexp.Compile(s.S)
		if err != nil {
			return Tuple{Ptr{}, in.goError(err.Error())}
		}
		return Tuple{in.newNative(r), Iface{}}
	}
	subject := func(in *Interp, v Value) string {
		return in.concretizeStr(v.(Str), "regexp subject")
	}
	S["(*regexp.Regexp).MatchString"] = func(in *Interp, a []Value) Value {
		r := in.nativeOf(a[0].(Ptr)).(*regexp.Regexp)
		return st.BoolConst(r.MatchString(subject(in, a[1])))
	}
	S["(*regexp.Regexp).SubexpNames"] = func(in *Interp, a []Value) Value {
		return in.strSlice(in.nativeOf(a[0].(Ptr)).(*regexp.Regexp).SubexpNames())
	}
	S["(*regexp.Regexp).FindAllStringSubmatchIndex"] = func(in *Interp, a []Value) Value {
		// contract mode: a harness may supply the match list itself (hRegexpFindAll returns
		// (matches, true)), constrained only by the documented contract of the method
		if f := in.harnessFunc("hRegexpFindAll"); f != nil {
			if res, ok := in.callValue(f, []Value{a[1], a[2]}).(Tuple); ok && len(res) == 2 {
				if b, isT := res[1].(*smt.Term); isT && b.IsTrue() {
					return res[0]
				}
			}
		}
		r := in.nativeOf(a[0].(Ptr)).(*regexp.Regexp)
		xs := r.FindAllStringSubmatchIndex(subject(in, a[1]), in.concInt(a[2], "n"))
		if xs == nil {
			return SliceV{}
		}
		arr := &Obj{Cells: make([]Value, len(xs)), T: types.NewSlice(types.Typ[types.Int])}
		for i, x := range xs {
			arr.Cells[i] = in.intSlice(x)
		}
		return SliceV{arr, 0, len(xs), len(xs)}
	}
	S["strings.ContainsAny"] = func(in *Interp, a []Value) Value {
		sb, cs := in.bytesOf(a[0]), in.bytesOf(a[1])
		r := st.F
		for _, b := range sb {
			for _, c := range cs {
				r = st.Or(r, st.Eq(b, c))
			}
		}
		for _, c := range cs {
			if c.IsConst() && c.Val.Uint64() >= 0x80 {
				abortf("unsupported: strings.ContainsAny with non-ASCII characters")
			}
		}
		return r
	}
	// ---- strings helpers that the stdlib implements with assembly-backed or unsafe code ----
	S["strings.Repeat"] = func(in *Interp, a []Value) Value {
		s := a[0].(Str)
		n := in.concSmall(a[1].(*smt.Term), "strings.Repeat count")
		if n < 0 {
			in.panicf("strings: negative Repeat count")
		}
		if s.B == nil && s.Len()*n <= 1<<22 {
			return Str{S: strings.Repeat(s.S, n)}
		}
		if s.Len()*n > 1<<16 {
			abortf("unsupported: strings.Repeat of symbolic bytes larger than 64 KiB")
		}
		var out []*smt.Term
		for i := 0; i < n; i++ {
			out = append(out, s.B...)
		}
		if len(out) == 0 {
			return Str{}
		}
		return Str{B: out}
	}
}
