// Package smt: hash-consed term DAG with constant folding, rendered to SMT-LIB2.
package smt

import (
	"fmt"
	"math"
	"math/big"
	"strings"
)

type Kind uint8

const (
	KBool Kind = iota
	KBV
	KFP // float64
)

type Sort struct {
	K Kind
	W int
}

var Bool = Sort{KBool, 0}

func BV(w int) Sort { return Sort{KBV, w} }

var FP64 = Sort{KFP, 64}

func (s Sort) String() string {
	if s.K == KBool {
		return "Bool"
	}
	if s.K == KFP {
		return "(_ FloatingPoint 11 53)"
	}
	return fmt.Sprintf("(_ BitVec %d)", s.W)
}

type Op uint8

const (
	OpConst Op = iota
	OpVar
	OpNot
	OpAnd
	OpOr
	OpEq
	OpIte
	OpBvAdd
	OpBvSub
	OpBvMul
	OpBvUdiv
	OpBvUrem
	OpBvSdiv
	OpBvSrem
	OpBvAnd
	OpBvOr
	OpBvXor
	OpBvNot
	OpBvNeg
	OpBvShl
	OpBvLshr
	OpBvAshr
	OpBvUlt
	OpBvUle
	OpBvSlt
	OpBvSle
	OpZext
	OpSext
	OpExtract // low bits [W-1:0]
	OpFpAdd
	OpFpSub
	OpFpMul
	OpFpDiv
	OpFpNeg
	OpFpAbs
	OpFpLt
	OpFpLe
	OpFpEq
	OpFpIsNaN
	OpFpIsInf
	OpFpFromSInt
	OpFpFromUInt
	OpFpToSInt // Sort gives the target width; RTZ
	OpFpRTI    // roundToIntegral, mode in Name
	OpFpMin
	OpFpMax
	OpFpToBits
	OpSelect // Args[0] = index (BV64); Name = table id; table contents in Store.Tables
)

var opName = map[Op]string{
	OpNot: "not", OpAnd: "and", OpOr: "or", OpEq: "=", OpIte: "ite",
	OpBvAdd: "bvadd", OpBvSub: "bvsub", OpBvMul: "bvmul", OpBvUdiv: "bvudiv", OpBvUrem: "bvurem",
	OpBvSdiv: "bvsdiv", OpBvSrem: "bvsrem", OpBvAnd: "bvand", OpBvOr: "bvor", OpBvXor: "bvxor",
	OpBvNot: "bvnot", OpBvNeg: "bvneg", OpBvShl: "bvshl", OpBvLshr: "bvlshr", OpBvAshr: "bvashr",
	OpBvUlt: "bvult", OpBvUle: "bvule", OpBvSlt: "bvslt", OpBvSle: "bvsle",
}

type Term struct {
	Op   Op
	Sort Sort
	Args []*Term
	Val  *big.Int // constants: BV value in [0,2^w), Bool 0/1
	Name string
	ID   int
}

type tkey struct {
	op         Op
	k          Kind
	w          int32
	a0, a1, a2 int32
	lo         uint64
	big        string
	name       string
}

type Store struct {
	Tables map[string][]*big.Int // constant tables referenced by OpSelect
	TableW map[string]int
	tab    map[tkey]*Term
	next   int
	T, F   *Term
	small  map[[2]int64]*Term
}

func NewStore() *Store {
	s := &Store{tab: map[tkey]*Term{}, Tables: map[string][]*big.Int{}, TableW: map[string]int{}, small: map[[2]int64]*Term{}}
	s.T = s.mk(&Term{Op: OpConst, Sort: Bool, Val: big.NewInt(1)})
	s.F = s.mk(&Term{Op: OpConst, Sort: Bool, Val: big.NewInt(0)})
	return s
}

// Size returns the number of distinct terms created so far.
func (s *Store) Size() int { return s.next }

func (s *Store) mk(t *Term) *Term {
	k := tkey{op: t.Op, k: t.Sort.K, w: int32(t.Sort.W), name: t.Name}
	switch len(t.Args) {
	case 3:
		k.a2 = int32(t.Args[2].ID)
		fallthrough
	case 2:
		k.a1 = int32(t.Args[1].ID)
		fallthrough
	case 1:
		k.a0 = int32(t.Args[0].ID)
	case 0:
	default:
		panic("smt: more than three arguments")
	}
	if t.Val != nil {
		if t.Val.IsUint64() {
			k.lo = t.Val.Uint64()
		} else {
			k.big = t.Val.Text(16)
		}
	}
	if u, ok := s.tab[k]; ok {
		return u
	}
	s.next++
	t.ID = s.next
	s.tab[k] = t
	return t
}

func (t *Term) IsConst() bool { return t.Op == OpConst }
func (t *Term) IsTrue() bool  { return t.Op == OpConst && t.Sort.K == KBool && t.Val.Sign() != 0 }
func (t *Term) IsFalse() bool { return t.Op == OpConst && t.Sort.K == KBool && t.Val.Sign() == 0 }

func mask(w int) *big.Int {
	m := new(big.Int).Lsh(big.NewInt(1), uint(w))
	return m.Sub(m, big.NewInt(1))
}

func norm(v *big.Int, w int) *big.Int {
	if v.Sign() >= 0 && v.BitLen() <= w {
		return v
	}
	r := new(big.Int).And(v, mask(w))
	return r
}

// Signed returns the signed interpretation of a BV constant.
func Signed(v *big.Int, w int) *big.Int {
	if v.Bit(w-1) == 1 {
		return new(big.Int).Sub(v, new(big.Int).Lsh(big.NewInt(1), uint(w)))
	}
	return new(big.Int).Set(v)
}

func (s *Store) BoolConst(b bool) *Term {
	if b {
		return s.T
	}
	return s.F
}

func (s *Store) BVConst(v *big.Int, w int) *Term {
	return s.mk(&Term{Op: OpConst, Sort: BV(w), Val: norm(v, w)})
}

func (s *Store) BVConstI(v int64, w int) *Term {
	if v >= -64 && v < 1024 {
		k := [2]int64{v, int64(w)}
		if t, ok := s.small[k]; ok {
			return t
		}
		t := s.BVConst(big.NewInt(v), w)
		s.small[k] = t
		return t
	}
	return s.BVConst(big.NewInt(v), w)
}
func (s *Store) BVConstU(v uint64, w int) *Term {
	return s.BVConst(new(big.Int).SetUint64(v), w)
}

func (s *Store) Var(name string, so Sort) *Term {
	return s.mk(&Term{Op: OpVar, Sort: so, Name: name})
}

func (s *Store) Not(a *Term) *Term {
	if a.IsConst() {
		return s.BoolConst(a.Val.Sign() == 0)
	}
	if a.Op == OpNot {
		return a.Args[0]
	}
	return s.mk(&Term{Op: OpNot, Sort: Bool, Args: []*Term{a}})
}

func (s *Store) And(a, b *Term) *Term {
	if a.IsFalse() || b.IsFalse() {
		return s.F
	}
	if a.IsTrue() {
		return b
	}
	if b.IsTrue() || a == b {
		return a
	}
	return s.mk(&Term{Op: OpAnd, Sort: Bool, Args: []*Term{a, b}})
}

func (s *Store) Or(a, b *Term) *Term {
	if a.IsTrue() || b.IsTrue() {
		return s.T
	}
	if a.IsFalse() {
		return b
	}
	if b.IsFalse() || a == b {
		return a
	}
	return s.mk(&Term{Op: OpOr, Sort: Bool, Args: []*Term{a, b}})
}

func (s *Store) Eq(a, b *Term) *Term {
	if a == b {
		return s.T
	}
	if a.IsConst() && b.IsConst() {
		return s.BoolConst(a.Val.Cmp(b.Val) == 0)
	}
	if a.Sort.K == KBool {
		if a.IsTrue() {
			return b
		}
		if b.IsTrue() {
			return a
		}
		if a.IsFalse() {
			return s.Not(b)
		}
		if b.IsFalse() {
			return s.Not(a)
		}
	}
	if a.ID > b.ID {
		a, b = b, a
	}
	return s.mk(&Term{Op: OpEq, Sort: Bool, Args: []*Term{a, b}})
}

func (s *Store) Ite(c, a, b *Term) *Term {
	if c.IsTrue() {
		return a
	}
	if c.IsFalse() {
		return b
	}
	if a == b {
		return a
	}
	if a.Sort.K == KBool {
		if a.IsTrue() && b.IsFalse() {
			return c
		}
		if a.IsFalse() && b.IsTrue() {
			return s.Not(c)
		}
	}
	return s.mk(&Term{Op: OpIte, Sort: a.Sort, Args: []*Term{c, a, b}})
}

// Bin builds a binary BV operation (result BV) or comparison (result Bool).
func (s *Store) Bin(op Op, a, b *Term) *Term {
	w := a.Sort.W
	if a.Sort != b.Sort {
		panic(fmt.Sprintf("smt.Bin %v: sort mismatch %v %v", opName[op], a.Sort, b.Sort))
	}
	isCmp := op == OpBvUlt || op == OpBvUle || op == OpBvSlt || op == OpBvSle
	if a.IsConst() && b.IsConst() {
		x, y := a.Val, b.Val
		sx, sy := Signed(x, w), Signed(y, w)
		r := new(big.Int)
		switch op {
		case OpBvAdd:
			return s.BVConst(r.Add(x, y), w)
		case OpBvSub:
			return s.BVConst(r.Sub(x, y), w)
		case OpBvMul:
			return s.BVConst(r.Mul(x, y), w)
		case OpBvUdiv:
			if y.Sign() == 0 {
				return s.BVConst(mask(w), w)
			}
			return s.BVConst(r.Quo(x, y), w)
		case OpBvUrem:
			if y.Sign() == 0 {
				return a
			}
			return s.BVConst(r.Rem(x, y), w)
		case OpBvSdiv:
			if y.Sign() == 0 {
				if sx.Sign() < 0 {
					return s.BVConstI(1, w)
				}
				return s.BVConst(mask(w), w)
			}
			return s.BVConst(r.Quo(sx, sy), w)
		case OpBvSrem:
			if y.Sign() == 0 {
				return a
			}
			return s.BVConst(r.Rem(sx, sy), w)
		case OpBvAnd:
			return s.BVConst(r.And(x, y), w)
		case OpBvOr:
			return s.BVConst(r.Or(x, y), w)
		case OpBvXor:
			return s.BVConst(r.Xor(x, y), w)
		case OpBvShl:
			if y.Cmp(big.NewInt(int64(w))) >= 0 {
				return s.BVConstI(0, w)
			}
			return s.BVConst(r.Lsh(x, uint(y.Uint64())), w)
		case OpBvLshr:
			if y.Cmp(big.NewInt(int64(w))) >= 0 {
				return s.BVConstI(0, w)
			}
			return s.BVConst(r.Rsh(x, uint(y.Uint64())), w)
		case OpBvAshr:
			sh := uint(w)
			if y.Cmp(big.NewInt(int64(w))) < 0 {
				sh = uint(y.Uint64())
			}
			return s.BVConst(r.Rsh(sx, sh), w)
		case OpBvUlt:
			return s.BoolConst(x.Cmp(y) < 0)
		case OpBvUle:
			return s.BoolConst(x.Cmp(y) <= 0)
		case OpBvSlt:
			return s.BoolConst(sx.Cmp(sy) < 0)
		case OpBvSle:
			return s.BoolConst(sx.Cmp(sy) <= 0)
		}
	}
	// light algebraic simplifications
	switch op {
	case OpBvAdd, OpBvOr, OpBvXor:
		if a.IsConst() && a.Val.Sign() == 0 {
			return b
		}
		if b.IsConst() && b.Val.Sign() == 0 {
			return a
		}
	case OpBvSub, OpBvShl, OpBvLshr, OpBvAshr:
		if b.IsConst() && b.Val.Sign() == 0 {
			return a
		}
	case OpBvUle, OpBvSle:
		if a == b {
			return s.T
		}
	case OpBvUlt, OpBvSlt:
		if a == b {
			return s.F
		}
	}
	so := a.Sort
	if isCmp {
		so = Bool
	}
	return s.mk(&Term{Op: op, Sort: so, Args: []*Term{a, b}})
}

func (s *Store) Un(op Op, a *Term) *Term {
	w := a.Sort.W
	if a.IsConst() {
		switch op {
		case OpBvNot:
			return s.BVConst(new(big.Int).Xor(a.Val, mask(w)), w)
		case OpBvNeg:
			return s.BVConst(new(big.Int).Neg(a.Val), w)
		}
	}
	return s.mk(&Term{Op: op, Sort: a.Sort, Args: []*Term{a}})
}

// Resize converts a BV to width w (sign- or zero-extending, or truncating).
func (s *Store) Resize(a *Term, w int, signed bool) *Term {
	ow := a.Sort.W
	if ow == w {
		return a
	}
	if a.IsConst() {
		if w > ow && signed {
			return s.BVConst(Signed(a.Val, ow), w)
		}
		return s.BVConst(a.Val, w)
	}
	if w < ow {
		return s.mk(&Term{Op: OpExtract, Sort: BV(w), Args: []*Term{a}})
	}
	if signed {
		return s.mk(&Term{Op: OpSext, Sort: BV(w), Args: []*Term{a}})
	}
	return s.mk(&Term{Op: OpZext, Sort: BV(w), Args: []*Term{a}})
}

// Render returns the SMT-LIB expression for t referring to sub-terms by name
// via ref (which returns the symbol under which a sub-term is defined).
func Render(t *Term, ref func(*Term) string) string {
	switch t.Op {
	case OpConst:
		if t.Sort.K == KBool {
			if t.Val.Sign() != 0 {
				return "true"
			}
			return "false"
		}
		if t.Sort.K == KFP {
			return fmt.Sprintf("((_ to_fp 11 53) #x%016x)", t.Val.Uint64())
		}
		return fmt.Sprintf("(_ bv%s %d)", t.Val.String(), t.Sort.W)
	case OpVar:
		return t.Name
	case OpFpAdd, OpFpSub, OpFpMul, OpFpDiv:
		return fmt.Sprintf("(%s RNE %s %s)", map[Op]string{OpFpAdd: "fp.add", OpFpSub: "fp.sub", OpFpMul: "fp.mul", OpFpDiv: "fp.div"}[t.Op], ref(t.Args[0]), ref(t.Args[1]))
	case OpFpLt, OpFpLe, OpFpEq, OpFpMin, OpFpMax:
		return fmt.Sprintf("(%s %s %s)", map[Op]string{OpFpLt: "fp.lt", OpFpLe: "fp.leq", OpFpEq: "fp.eq", OpFpMin: "fp.min", OpFpMax: "fp.max"}[t.Op], ref(t.Args[0]), ref(t.Args[1]))
	case OpFpNeg, OpFpAbs, OpFpIsNaN, OpFpIsInf:
		return fmt.Sprintf("(%s %s)", map[Op]string{OpFpNeg: "fp.neg", OpFpAbs: "fp.abs", OpFpIsNaN: "fp.isNaN", OpFpIsInf: "fp.isInfinite"}[t.Op], ref(t.Args[0]))
	case OpFpRTI:
		return fmt.Sprintf("(fp.roundToIntegral %s %s)", t.Name, ref(t.Args[0]))
	case OpFpFromSInt:
		return fmt.Sprintf("((_ to_fp 11 53) RNE %s)", ref(t.Args[0]))
	case OpFpFromUInt:
		return fmt.Sprintf("((_ to_fp_unsigned 11 53) RNE %s)", ref(t.Args[0]))
	case OpFpToSInt:
		return fmt.Sprintf("((_ fp.to_sbv %d) RTZ %s)", t.Sort.W, ref(t.Args[0]))
	case OpFpToBits:
		return fmt.Sprintf("(fp.to_ieee_bv %s)", ref(t.Args[0]))
	case OpSelect:
		return fmt.Sprintf("(select %s %s)", t.Name, ref(t.Args[0]))
	case OpZext:
		return fmt.Sprintf("((_ zero_extend %d) %s)", t.Sort.W-t.Args[0].Sort.W, ref(t.Args[0]))
	case OpSext:
		return fmt.Sprintf("((_ sign_extend %d) %s)", t.Sort.W-t.Args[0].Sort.W, ref(t.Args[0]))
	case OpExtract:
		return fmt.Sprintf("((_ extract %d 0) %s)", t.Sort.W-1, ref(t.Args[0]))
	}
	var sb strings.Builder
	sb.WriteString("(" + opName[t.Op])
	for _, a := range t.Args {
		sb.WriteString(" " + ref(a))
	}
	sb.WriteString(")")
	return sb.String()
}

// ---- floating point (float64) ----

func (s *Store) FPConst(f float64) *Term {
	return s.mk(&Term{Op: OpConst, Sort: FP64, Val: new(big.Int).SetUint64(math.Float64bits(f))})
}

func (s *Store) FPConstBits(b uint64) *Term {
	return s.mk(&Term{Op: OpConst, Sort: FP64, Val: new(big.Int).SetUint64(b)})
}

func FPVal(t *Term) float64 { return math.Float64frombits(t.Val.Uint64()) }

func (s *Store) FpBin(op Op, a, b *Term) *Term {
	if a.IsConst() && b.IsConst() {
		x, y := FPVal(a), FPVal(b)
		switch op {
		case OpFpAdd:
			return s.FPConst(x + y)
		case OpFpSub:
			return s.FPConst(x - y)
		case OpFpMul:
			return s.FPConst(x * y)
		case OpFpDiv:
			return s.FPConst(x / y)
		case OpFpLt:
			return s.BoolConst(x < y)
		case OpFpLe:
			return s.BoolConst(x <= y)
		case OpFpEq:
			return s.BoolConst(x == y)
		case OpFpMin:
			return s.FPConst(math.Min(x, y))
		case OpFpMax:
			return s.FPConst(math.Max(x, y))
		}
	}
	so := FP64
	if op == OpFpLt || op == OpFpLe || op == OpFpEq {
		so = Bool
	}
	return s.mk(&Term{Op: op, Sort: so, Args: []*Term{a, b}})
}

func (s *Store) FpUn(op Op, a *Term, mode string) *Term {
	if a.IsConst() {
		x := FPVal(a)
		switch op {
		case OpFpNeg:
			return s.FPConst(-x)
		case OpFpAbs:
			return s.FPConst(math.Abs(x))
		case OpFpIsNaN:
			return s.BoolConst(math.IsNaN(x))
		case OpFpIsInf:
			return s.BoolConst(math.IsInf(x, 0))
		case OpFpRTI:
			switch mode {
			case "RTN":
				return s.FPConst(math.Floor(x))
			case "RTP":
				return s.FPConst(math.Ceil(x))
			case "RTZ":
				return s.FPConst(math.Trunc(x))
			}
		}
	}
	so := FP64
	if op == OpFpIsNaN || op == OpFpIsInf {
		so = Bool
	}
	return s.mk(&Term{Op: op, Sort: so, Args: []*Term{a}, Name: mode})
}

func (s *Store) FpFromInt(a *Term, signed bool) *Term {
	if a.IsConst() {
		if signed {
			f, _ := new(big.Float).SetInt(Signed(a.Val, a.Sort.W)).Float64()
			return s.FPConst(f)
		}
		f, _ := new(big.Float).SetInt(a.Val).Float64()
		return s.FPConst(f)
	}
	op := OpFpFromUInt
	if signed {
		op = OpFpFromSInt
	}
	return s.mk(&Term{Op: op, Sort: FP64, Args: []*Term{a}})
}

func (s *Store) FpToSInt(a *Term, w int) *Term {
	if a.IsConst() {
		x := FPVal(a)
		if !math.IsNaN(x) && x > -9.3e18 && x < 9.3e18 {
			return s.BVConstI(int64(x), w)
		}
	}
	return s.mk(&Term{Op: OpFpToSInt, Sort: BV(w), Args: []*Term{a}})
}

func (s *Store) FpToBits(a *Term) *Term {
	if a.IsConst() {
		return s.BVConst(a.Val, 64)
	}
	return s.mk(&Term{Op: OpFpToBits, Sort: BV(64), Args: []*Term{a}})
}

// Select reads a constant table (all entries constants of width w) at a symbolic index.
func (s *Store) Select(vals []*big.Int, w int, idx *Term) *Term {
	var sb strings.Builder
	fmt.Fprintf(&sb, "tbl%d_%d_", w, len(vals))
	h := uint64(1469598103934665603)
	for _, v := range vals {
		h = (h ^ v.Uint64()) * 1099511628211
	}
	fmt.Fprintf(&sb, "%x", h)
	id := sb.String()
	if _, ok := s.Tables[id]; !ok {
		s.Tables[id] = vals
		s.TableW[id] = w
	}
	return s.mk(&Term{Op: OpSelect, Sort: BV(w), Args: []*Term{idx}, Name: id})
}

// Rebuild constructs a term with operator t.Op over new arguments through the
// folding constructors (used by Eval).
func (s *Store) rebuild(t *Term, a []*Term) *Term {
	switch t.Op {
	case OpNot:
		return s.Not(a[0])
	case OpAnd:
		return s.And(a[0], a[1])
	case OpOr:
		return s.Or(a[0], a[1])
	case OpEq:
		if a[0].Sort.K == KFP && a[0].IsConst() && a[1].IsConst() {
			// smt "=" on floats is bit identity except that all NaNs are equal
			x, y := FPVal(a[0]), FPVal(a[1])
			if x != x && y != y {
				return s.T
			}
			return s.BoolConst(a[0].Val.Cmp(a[1].Val) == 0)
		}
		return s.Eq(a[0], a[1])
	case OpIte:
		return s.Ite(a[0], a[1], a[2])
	case OpBvAdd, OpBvSub, OpBvMul, OpBvUdiv, OpBvUrem, OpBvSdiv, OpBvSrem, OpBvAnd, OpBvOr, OpBvXor, OpBvShl, OpBvLshr, OpBvAshr, OpBvUlt, OpBvUle, OpBvSlt, OpBvSle:
		return s.Bin(t.Op, a[0], a[1])
	case OpBvNot, OpBvNeg:
		return s.Un(t.Op, a[0])
	case OpZext:
		return s.Resize(a[0], t.Sort.W, false)
	case OpSext:
		return s.Resize(a[0], t.Sort.W, true)
	case OpExtract:
		return s.Resize(a[0], t.Sort.W, false)
	case OpFpAdd, OpFpSub, OpFpMul, OpFpDiv, OpFpLt, OpFpLe, OpFpEq, OpFpMin, OpFpMax:
		return s.FpBin(t.Op, a[0], a[1])
	case OpFpNeg, OpFpAbs, OpFpIsNaN, OpFpIsInf, OpFpRTI:
		return s.FpUn(t.Op, a[0], t.Name)
	case OpFpFromSInt:
		return s.FpFromInt(a[0], true)
	case OpFpFromUInt:
		return s.FpFromInt(a[0], false)
	case OpFpToSInt:
		return s.FpToSInt(a[0], t.Sort.W)
	case OpFpToBits:
		return s.FpToBits(a[0])
	case OpSelect:
		if a[0].IsConst() {
			vals := s.Tables[t.Name]
			if a[0].Val.IsInt64() && a[0].Val.Int64() >= 0 && int(a[0].Val.Int64()) < len(vals) {
				return s.BVConst(vals[a[0].Val.Int64()], t.Sort.W)
			}
		}
		return nil
	}
	return nil
}

// Eval evaluates t under an assignment of variables to constant terms; variables
// without a value evaluate to zero/false. Returns nil when the value cannot be
// determined by constant folding.
func (s *Store) Eval(t *Term, env func(*Term) *Term, memo map[*Term]*Term) *Term {
	if t.Op == OpConst {
		return t
	}
	if r, ok := memo[t]; ok {
		return r
	}
	var r *Term
	if t.Op == OpVar {
		if v := env(t); v != nil {
			r = v
		} else {
			switch t.Sort.K {
			case KBool:
				r = s.F
			case KFP:
				r = s.FPConst(0)
			default:
				r = s.BVConstI(0, t.Sort.W)
			}
		}
	} else {
		args := make([]*Term, len(t.Args))
		ok := true
		for i, a := range t.Args {
			// short-circuit boolean structure so that unknown sub-terms do not matter
			args[i] = s.Eval(a, env, memo)
			if args[i] == nil {
				ok = false
			}
		}
		if !ok {
			// and/or/ite can still be decided by the known arguments
			switch t.Op {
			case OpAnd:
				if args[0] != nil && args[0].IsFalse() || args[1] != nil && args[1].IsFalse() {
					r = s.F
				}
			case OpOr:
				if args[0] != nil && args[0].IsTrue() || args[1] != nil && args[1].IsTrue() {
					r = s.T
				}
			case OpIte:
				if args[0] != nil && args[0].IsTrue() {
					r = args[1]
				} else if args[0] != nil && args[0].IsFalse() {
					r = args[2]
				}
			}
		} else {
			r = s.rebuild(t, args)
			if r != nil && !r.IsConst() {
				r = nil
			}
		}
	}
	memo[t] = r
	return r
}

// Subst rewrites t replacing terms by their images in env (typically variables by
// constants learned from asserted equalities) and re-folding.
func (s *Store) Subst(t *Term, env map[*Term]*Term, memo map[*Term]*Term) *Term {
	if t.Op == OpConst {
		return t
	}
	if r, ok := env[t]; ok {
		return r
	}
	if t.Op == OpVar {
		return t
	}
	if r, ok := memo[t]; ok {
		return r
	}
	changed := false
	args := make([]*Term, len(t.Args))
	for i, a := range t.Args {
		args[i] = s.Subst(a, env, memo)
		if args[i] != a {
			changed = true
		}
	}
	r := t
	if changed {
		r = s.rebuild(t, args)
		if r == nil {
			r = s.mk(&Term{Op: t.Op, Sort: t.Sort, Args: args, Name: t.Name})
		}
	}
	memo[t] = r
	return r
}

// SolveEq: if the asserted literal has the form (= e k) with k constant and e a
// variable possibly under +/- constant or an extension, returns (variable, value).
func (s *Store) SolveEq(lit *Term) (*Term, *Term) {
	if lit.Op == OpVar && lit.Sort.K == KBool {
		return lit, s.T
	}
	if lit.Op == OpNot && lit.Args[0].Op == OpVar {
		return lit.Args[0], s.F
	}
	if lit.Op != OpEq {
		return nil, nil
	}
	e, k := lit.Args[0], lit.Args[1]
	if e.IsConst() {
		e, k = k, e
	}
	if !k.IsConst() || e.Sort.K != KBV {
		return nil, nil
	}
	for depth := 0; depth < 6; depth++ {
		switch e.Op {
		case OpVar:
			return e, k
		case OpBvAdd:
			if e.Args[1].IsConst() {
				k, e = s.Bin(OpBvSub, k, e.Args[1]), e.Args[0]
			} else if e.Args[0].IsConst() {
				k, e = s.Bin(OpBvSub, k, e.Args[0]), e.Args[1]
			} else {
				return nil, nil
			}
		case OpBvSub:
			if e.Args[1].IsConst() {
				k, e = s.Bin(OpBvAdd, k, e.Args[1]), e.Args[0]
			} else if e.Args[0].IsConst() {
				k, e = s.Bin(OpBvSub, e.Args[0], k), e.Args[1]
			} else {
				return nil, nil
			}
		case OpSext:
			w := e.Args[0].Sort.W
			lo := s.Resize(k, w, false)
			if s.Resize(lo, k.Sort.W, true) != k {
				return nil, nil // the equality is unsatisfiable; leave it to the solver
			}
			k, e = lo, e.Args[0]
		case OpZext:
			w := e.Args[0].Sort.W
			lo := s.Resize(k, w, false)
			if s.Resize(lo, k.Sort.W, false) != k {
				return nil, nil
			}
			k, e = lo, e.Args[0]
		default:
			return nil, nil
		}
	}
	return nil, nil
}
