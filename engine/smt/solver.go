package smt

import (
	"bufio"
	"fmt"
	"io"
	"math/big"
	"os/exec"
	"strings"
	"time"
)

type Result int

const (
	Unknown Result = iota
	Sat
	Unsat
)

func (r Result) String() string { return [...]string{"unknown", "sat", "unsat"}[r] }

// Solver drives one persistent `z3 -in` process with push/pop.
type Solver struct {
	cmd     *exec.Cmd
	in      io.WriteCloser
	out     *bufio.Reader
	level   int
	defined map[int]int // term id -> level where it was defined
	byLevel [][]int
	Stats   struct {
		Checks, Sat, Unsat, Unknown, Errors int
		Time                                time.Duration
	}
	LastError string
	Log io.Writer
	Store *Store
	tables map[string]bool
	tableLevel []tableDecl
	divPairs   map[string]divPair
	IntMode bool // render bit-vectors as mathematical integers with explicit wrap
	Dead    bool // the process was killed by the watchdog or died
}

func NewSolver(bin string, args ...string) (*Solver, error) {
	cmd := exec.Command(bin, args...)
	in, err := cmd.StdinPipe()
	if err != nil {
		return nil, err
	}
	out, err := cmd.StdoutPipe()
	if err != nil {
		return nil, err
	}
	cmd.Stderr = cmd.Stdout
	if err := cmd.Start(); err != nil {
		return nil, err
	}
	s := &Solver{cmd: cmd, in: in, out: bufio.NewReaderSize(out, 1<<16), defined: map[int]int{}, byLevel: [][]int{nil}}
	s.send("(set-option :produce-models true)")
	return s, nil
}

func (s *Solver) Close() {
	s.in.Close()
	if s.Dead {
		s.cmd.Process.Kill()
	}
	s.cmd.Wait()
}

func (s *Solver) send(line string) {
	if s.Log != nil {
		fmt.Fprintln(s.Log, line)
	}
	io.WriteString(s.in, line+"\n")
}

func (s *Solver) Level() int { return s.level }

func (s *Solver) Push() {
	s.send("(push 1)")
	s.level++
	s.byLevel = append(s.byLevel, nil)
}

func (s *Solver) PopTo(level int) {
	if level >= s.level {
		return
	}
	s.send(fmt.Sprintf("(pop %d)", s.level-level))
	for l := s.level; l > level; l-- {
		for _, id := range s.byLevel[l] {
			delete(s.defined, id)
		}
	}
	s.byLevel = s.byLevel[:level+1]
	s.level = level
	for k, dp := range s.divPairs {
		if dp.level > level {
			delete(s.divPairs, k)
		}
	}
	for len(s.tableLevel) > 0 && s.tableLevel[len(s.tableLevel)-1].level > level {
		delete(s.tables, s.tableLevel[len(s.tableLevel)-1].id)
		s.tableLevel = s.tableLevel[:len(s.tableLevel)-1]
	}
}

// ref makes sure t is defined in the solver and returns its symbol.
func (s *Solver) ref(t *Term) string {
	if t.Op == OpConst {
		if s.IntMode && t.Sort.K == KBV {
			v := Signed(t.Val, t.Sort.W)
			if v.Sign() < 0 {
				return "(- " + new(big.Int).Neg(v).String() + ")"
			}
			return v.String()
		}
		return Render(t, nil)
	}
	if _, ok := s.defined[t.ID]; ok {
		if t.Op == OpVar {
			return t.Name
		}
		return fmt.Sprintf("t%d", t.ID)
	}
	// define children first (iteratively deep DAGs are fine with recursion here)
	if s.IntMode {
		return s.refInt(t)
	}
	if t.Op == OpSelect && !s.tables[t.Name] {
		// tables are global facts: declare them at level 0 semantics by re-declaring after pops
		if s.tables == nil {
			s.tables = map[string]bool{}
		}
		s.declareTable(t.Name)
	}
	var body string
	if t.Op != OpVar {
		body = Render(t, s.ref)
	}
	s.defined[t.ID] = s.level
	s.byLevel[s.level] = append(s.byLevel[s.level], t.ID)
	if t.Op == OpVar {
		s.send(fmt.Sprintf("(declare-const %s %s)", t.Name, t.Sort))
		return t.Name
	}
	s.send(fmt.Sprintf("(define-fun t%d () %s %s)", t.ID, t.Sort, body))
	return fmt.Sprintf("t%d", t.ID)
}

func (s *Solver) Assert(t *Term) {
	s.send("(assert " + s.ref(t) + ")")
}

func (s *Solver) readLine() (string, error) {
	line, err := s.out.ReadString('\n')
	return strings.TrimSpace(line), err
}

// Check runs check-sat with a timeout in milliseconds.
func (s *Solver) Check(timeoutMs int) (Result, error) {
	if s.Dead {
		return Unknown, fmt.Errorf("solver process is dead")
	}
	t0 := time.Now()
	s.send(fmt.Sprintf("(set-option :timeout %d)", timeoutMs))
	s.send("(check-sat)")
	s.Stats.Checks++
	// watchdog: the solver's own timeout is not always honoured
	wd := time.AfterFunc(time.Duration(timeoutMs)*time.Millisecond*2+10*time.Second, func() {
		s.Dead = true
		s.cmd.Process.Kill()
	})
	defer wd.Stop()
	for {
		line, err := s.readLine()
		if err != nil {
			s.Dead = true
			s.Stats.Unknown++
			s.Stats.Time += time.Since(t0)
			return Unknown, nil
		}
		switch {
		case line == "sat":
			s.Stats.Sat++
			s.Stats.Time += time.Since(t0)
			return Sat, nil
		case line == "unsat":
			s.Stats.Unsat++
			s.Stats.Time += time.Since(t0)
			return Unsat, nil
		case line == "unknown" || line == "timeout":
			s.Stats.Unknown++
			s.Stats.Time += time.Since(t0)
			return Unknown, nil
		case strings.HasPrefix(line, "(error"):
			s.Stats.Unknown++
			s.Stats.Errors++
			s.LastError = line
			s.Stats.Time += time.Since(t0)
			// drain the answer that follows the error line, if any, so the stream stays in sync
			s.Dead = true
			return Unknown, fmt.Errorf("solver: %s", line)
		}
	}
}

// CheckWithModel: push, assert t, check, read the values of vars when sat, pop.
func (s *Solver) CheckWithModel(t *Term, timeoutMs int, vars []*Term) (Result, map[string]*big.Int, error) {
	lvl := s.level
	s.Push()
	s.Assert(t)
	r, err := s.Check(timeoutMs)
	var m map[string]*big.Int
	if err == nil && r == Sat && len(vars) > 0 {
		m, _ = s.Values(vars)
	}
	s.PopTo(lvl)
	return r, m, err
}

// CheckAssuming: push, assert t, check, pop.
func (s *Solver) CheckWith(t *Term, timeoutMs int) (Result, error) {
	lvl := s.level
	s.Push()
	s.Assert(t)
	r, err := s.Check(timeoutMs)
	s.PopTo(lvl)
	return r, err
}

// Values returns the model values of the given variables (after a Sat check at
// the current level; call before popping).
func (s *Solver) Values(vars []*Term) (map[string]*big.Int, error) {
	res := map[string]*big.Int{}
	if len(vars) == 0 {
		return res, nil
	}
	var sb strings.Builder
	sb.WriteString("(get-value (")
	for _, v := range vars {
		if v.Sort.K == KFP && !s.IntMode {
			sb.WriteString("(fp.to_ieee_bv " + s.ref(v) + ") ")
		} else {
			sb.WriteString(s.ref(v) + " ")
		}
	}
	sb.WriteString("))")
	s.send(sb.String())
	// read balanced s-expression
	var text strings.Builder
	depth, started := 0, false
	for !started || depth > 0 {
		line, err := s.readLine()
		if err != nil {
			return nil, err
		}
		if strings.HasPrefix(line, "(error") {
			return nil, fmt.Errorf("solver: %s", line)
		}
		for _, c := range line {
			if c == '(' {
				depth++
				started = true
			} else if c == ')' {
				depth--
			}
		}
		text.WriteString(line + " ")
	}
	toks := strings.Fields(strings.NewReplacer("(", " ( ", ")", " ) ").Replace(text.String()))
	// generic s-expression parse: ( (expr value) (expr value) ... ) — results are positional
	pos := 0
	var parse func() any
	parse = func() any {
		if toks[pos] == "(" {
			pos++
			var l []any
			for toks[pos] != ")" {
				l = append(l, parse())
			}
			pos++
			return l
		}
		pos++
		return toks[pos-1]
	}
	top, _ := parse().([]any)
	atomVal := func(v any) *big.Int {
		switch v := v.(type) {
		case string:
			switch {
			case strings.HasPrefix(v, "#x"):
				r, _ := new(big.Int).SetString(v[2:], 16)
				return r
			case strings.HasPrefix(v, "#b"):
				r, _ := new(big.Int).SetString(v[2:], 2)
				return r
			case v == "true":
				return big.NewInt(1)
			case v == "false":
				return big.NewInt(0)
			default:
				r, ok := new(big.Int).SetString(v, 10)
				if ok {
					return r
				}
			}
		case []any:
			if len(v) == 2 && v[0] == "-" {
				r, _ := new(big.Int).SetString(v[1].(string), 10)
				return r.Neg(r)
			}
			if len(v) == 3 && v[0] == "_" {
				r, _ := new(big.Int).SetString(strings.TrimPrefix(v[1].(string), "bv"), 10)
				return r
			}
		}
		return nil
	}
	for i, pair := range top {
		pl, ok := pair.([]any)
		if !ok || len(pl) != 2 || i >= len(vars) {
			continue
		}
		if val := atomVal(pl[1]); val != nil {
			name := vars[i].Name
			if vars[i].Op != OpVar {
				name = fmt.Sprintf("t%d", vars[i].ID)
			}
			res[name] = val
		}
	}
	return res, nil
}

func pow2(w int) string { return new(big.Int).Lsh(big.NewInt(1), uint(w)).String() }

// WideW: bit-vectors of this width model unbounded integers (math/big) and are
// rendered without wrap in Int mode.
const WideW = 192

// refInt: Int rendering. A BV term of width w denotes its SIGNED value, an Int
// in [-2^(w-1), 2^(w-1)); width WideW denotes an unbounded Int.
func (s *Solver) refInt(t *Term) string {
	if t.Op == OpSext {
		return s.ref(t.Args[0])
	}
	mark := func() {
		s.defined[t.ID] = s.level
		s.byLevel[s.level] = append(s.byLevel[s.level], t.ID)
	}
	name := fmt.Sprintf("t%d", t.ID)
	inRange := func(x string, w int) string {
		return fmt.Sprintf("(and (<= (- %s) %s) (< %s %s))", pow2(w-1), x, x, pow2(w-1))
	}
	if t.Op == OpVar {
		mark()
		if t.Sort.K == KBool {
			s.send(fmt.Sprintf("(declare-const %s Bool)", t.Name))
		} else {
			s.send(fmt.Sprintf("(declare-const %s Int)", t.Name))
			if t.Sort.W != WideW {
				s.send(fmt.Sprintf("(assert %s)", inRange(t.Name, t.Sort.W)))
			}
		}
		return t.Name
	}
	uns := func(a *Term) string { // unsigned value
		x := s.ref(a)
		return fmt.Sprintf("(ite (< %s 0) (+ %s %s) %s)", x, x, pow2(a.Sort.W), x)
	}
	wrapS := func(e string, w int) string {
		if w == WideW {
			return e
		}
		return fmt.Sprintf("(- (mod (+ %s %s) %s) %s)", e, pow2(w-1), pow2(w), pow2(w-1))
	}
	var body string
	sort := "Int"
	if t.Sort.K == KBool {
		sort = "Bool"
	}
	w := t.Sort.W
	switch t.Op {
	case OpNot, OpAnd, OpOr:
		body = Render(t, s.ref)
	case OpEq:
		body = fmt.Sprintf("(= %s %s)", s.ref(t.Args[0]), s.ref(t.Args[1]))
	case OpIte:
		body = fmt.Sprintf("(ite %s %s %s)", s.ref(t.Args[0]), s.ref(t.Args[1]), s.ref(t.Args[2]))
	case OpBvAdd:
		body = wrapS(fmt.Sprintf("(+ %s %s)", s.ref(t.Args[0]), s.ref(t.Args[1])), w)
	case OpBvSub:
		body = wrapS(fmt.Sprintf("(- %s %s)", s.ref(t.Args[0]), s.ref(t.Args[1])), w)
	case OpBvNeg:
		body = wrapS(fmt.Sprintf("(- %s)", s.ref(t.Args[0])), w)
	case OpBvMul:
		a, b := s.ref(t.Args[0]), s.ref(t.Args[1])
		if w == WideW {
			body = fmt.Sprintf("(* %s %s)", a, b)
			break
		}
		mark()
		s.send(fmt.Sprintf("(declare-const %s Int)", name))
		s.send(fmt.Sprintf("(declare-const %s_k Int)", name))
		s.send(fmt.Sprintf("(assert (and %s (= %s (- (* %s %s) (* %s %s_k)))))", inRange(name, w), name, a, b, pow2(w), name))
		return name
	case OpBvSdiv, OpBvSrem:
		a, b := s.ref(t.Args[0]), s.ref(t.Args[1])
		mark()
		// one (quotient, remainder) pair per operand pair, shared by sdiv/srem at any width
		key := a + "|" + b
		if s.divPairs == nil {
			s.divPairs = map[string]divPair{}
		}
		dp, have := s.divPairs[key]
		if !have || dp.level > s.level {
			dp = divPair{name: name, level: s.level, a: a, b: b}
			q, m := name+"_q", name+"_m"
			s.send(fmt.Sprintf("(declare-const %s Int)", q))
			s.send(fmt.Sprintf("(declare-const %s Int)", m))
			// functional consistency with the pairs introduced for other operand terms
			for _, o := range s.divPairs {
				s.send(fmt.Sprintf("(assert (=> (and (= %s %s) (= %s %s)) (and (= %s %s_q) (= %s %s_m))))", a, o.a, b, o.b, q, o.name, m, o.name))
			}
			s.divPairs[key] = dp
			s.send(fmt.Sprintf("(assert (=> (not (= %s 0)) (and (= %s (+ (* %s %s) %s)) (< (abs %s) (abs %s)) (or (= %s 0) (and (> %s 0) (> %s 0)) (and (< %s 0) (< %s 0))))))", b, a, q, b, m, m, b, m, m, a, m, a))
		}
		q, m := dp.name+"_q", dp.name+"_m"
		res := q
		if t.Op == OpBvSrem {
			res = m
		}
		s.send(fmt.Sprintf("(define-fun %s () Int %s)", name, wrapS(res, w)))
		return name
	case OpBvUdiv:
		body = wrapS(fmt.Sprintf("(div %s %s)", uns(t.Args[0]), uns(t.Args[1])), w)
	case OpBvUrem:
		body = wrapS(fmt.Sprintf("(mod %s %s)", uns(t.Args[0]), uns(t.Args[1])), w)
	case OpBvShl, OpBvLshr, OpBvAshr:
		if !t.Args[1].IsConst() {
			panic(fmt.Sprintf("Int rendering: %v by a symbolic amount not expressible", opName[t.Op]))
		}
		k := int(t.Args[1].Val.Int64())
		if k >= w {
			k = w
		}
		switch t.Op {
		case OpBvShl:
			body = wrapS(fmt.Sprintf("(* %s %s)", s.ref(t.Args[0]), pow2(k)), w)
		case OpBvLshr:
			body = wrapS(fmt.Sprintf("(div %s %s)", uns(t.Args[0]), pow2(k)), w)
		default:
			body = fmt.Sprintf("(div %s %s)", s.ref(t.Args[0]), pow2(k))
		}
	case OpBvAnd:
		// only masks of the form 2^k-1 (low bits) are expressible
		m := t.Args[1]
		x := t.Args[0]
		if !m.IsConst() {
			m, x = x, m
		}
		if !m.IsConst() {
			panic("Int rendering: operator bvand of two symbolic operands not expressible")
		}
		mv := new(big.Int).Add(m.Val, big.NewInt(1))
		if mv.BitLen() == 0 || new(big.Int).And(mv, m.Val).Sign() != 0 {
			panic("Int rendering: bvand with a mask that is not 2^k-1 not expressible")
		}
		body = wrapS(fmt.Sprintf("(mod %s %s)", uns(x), mv.String()), w)
	case OpBvUlt:
		body = fmt.Sprintf("(< %s %s)", uns(t.Args[0]), uns(t.Args[1]))
	case OpBvUle:
		body = fmt.Sprintf("(<= %s %s)", uns(t.Args[0]), uns(t.Args[1]))
	case OpBvSlt:
		body = fmt.Sprintf("(< %s %s)", s.ref(t.Args[0]), s.ref(t.Args[1]))
	case OpBvSle:
		body = fmt.Sprintf("(<= %s %s)", s.ref(t.Args[0]), s.ref(t.Args[1]))
	case OpZext:
		body = uns(t.Args[0])
	case OpSext:
		body = s.ref(t.Args[0])
	case OpExtract:
		body = wrapS(s.ref(t.Args[0]), w)
	default:
		panic(fmt.Sprintf("Int rendering: operator %v not expressible", opName[t.Op]))
	}
	mark()
	s.send(fmt.Sprintf("(define-fun %s () %s %s)", name, sort, body))
	return name
}

// declareTable defines a constant array. It is (re)declared at the current level and
// forgotten when that level is popped.
func (s *Solver) declareTable(id string) {
	vals, w := s.Store.Tables[id], s.Store.TableW[id]
	s.send(fmt.Sprintf("(declare-const %s (Array (_ BitVec 64) (_ BitVec %d)))", id, w))
	var sb strings.Builder
	sb.WriteString("(assert (and")
	for i, v := range vals {
		fmt.Fprintf(&sb, " (= (select %s (_ bv%d 64)) (_ bv%s %d))", id, i, v.String(), w)
	}
	sb.WriteString("))")
	s.send(sb.String())
	s.tables[id] = true
	lvl := s.level
	s.tableLevel = append(s.tableLevel, tableDecl{id, lvl})
}

type divPair struct {
	name  string
	level int
	a, b  string
}

type tableDecl struct {
	id    string
	level int
}
