package smt

import "testing"

func TestSolverBasic(t *testing.T) {
	st := NewStore()
	s, err := NewSolver("z3", "-in")
	if err != nil {
		t.Fatal(err)
	}
	defer s.Close()
	x := st.Var("x", BV(64))
	y := st.Var("y", BV(64))
	sum := st.Bin(OpBvAdd, x, y)
	s.Push()
	s.Assert(st.Eq(sum, st.BVConstI(10, 64)))
	s.Assert(st.Bin(OpBvSlt, x, st.BVConstI(0, 64)))
	r, err := s.Check(2000)
	if err != nil || r != Sat {
		t.Fatal(r, err)
	}
	m, err := s.Values([]*Term{x, y})
	if err != nil {
		t.Fatal(err)
	}
	t.Log(Signed(m["x"], 64), Signed(m["y"], 64))
	s.PopTo(0)
	s.Push()
	s.Assert(st.Not(st.Eq(st.Bin(OpBvAdd, x, y), st.Bin(OpBvAdd, y, x))))
	r, _ = s.Check(2000)
	if r != Unsat {
		t.Fatal(r)
	}
}
