import yaml, json, subprocess, re, sys
def goquote(t):
    b=t.encode('utf-8','surrogatepass')
    out='"'
    for c in b:
        if c in (34,92): out+='\\'+chr(c)
        elif 32<=c<127: out+=chr(c)
        else: out+='\\x%02x'%c
    return out+'"'

cases = yaml.safe_load(open('/repo/cli/test.yaml'))
def golit(v):
    if v is None: return 'nil'
    if v is True: return 'true'
    if v is False: return 'false'
    if isinstance(v, int) and not isinstance(v, bool):
        if -2**62 < v < 2**62: return 'int(%d)' % v
        return None
    if isinstance(v, float): return None
    if isinstance(v, str): return goquote(v)
    if isinstance(v, list):
        xs=[golit(x) for x in v]
        if None in xs: return None
        return '[]any{' + ', '.join(xs) + '}'
    if isinstance(v, dict):
        xs=[]
        for k,x in v.items():
            g=golit(x)
            if g is None: return None
            xs.append(goquote(k)+': '+g)
        return 'map[string]any{' + ', '.join(xs) + '}'
    return None
out=[]
skipped=0
for c in cases:
    args=c.get('args') or ['.']
    if len(args)!=1 or args[0].startswith('-'): skipped+=1; continue
    q=args[0]
    if any(w in q for w in ['input','now','env','$ENV','halt','import','include','modulemeta','debug','stderr','$__loc__','localtime','mktime','strftime','strptime','date','splits','test(','match','capture','scan','sub(','gsub','ltrimstr' if False else '@@@','getpath/1' ]): skipped+=1; continue
    inp=c.get('input','')
    # parse multi-doc JSON
    docs=[]; dec=json.JSONDecoder(); s=inp.strip(); ok=True
    while s:
        try:
            v,i=dec.raw_decode(s)
        except Exception:
            ok=False; break
        docs.append(v); s=s[i:].lstrip()
    if not ok: skipped+=1; continue
    if not docs: docs=[None] if False else []
    lits=[golit(d) for d in docs]
    if None in lits or not docs: skipped+=1; continue
    # native expected (compact), per doc
    exp=[]
    good=True
    for d in docs:
        p=subprocess.run(['./gojq_native','-c',q],input=json.dumps(d).encode(),capture_output=True,timeout=10)
        lines=p.stdout.decode().split('\n')[:-1] if p.stdout else []
        if len(lines)>8: good=False; break
        exp.append((lines, p.returncode!=0))
    if not good: skipped+=1; continue
    out.append((c['name'],q,lits,exp))
print('cases',len(out),'skipped',skipped,file=sys.stderr)
with open('harness/h_corpus.go','w') as f:
    f.write('package gojq\n\ntype corpusCase struct {\n\tname, query string\n\tinputs []any\n\texpect [][]string\n\terrs []bool\n}\n\nvar corpusCases = []corpusCase{\n')
    for name,q,lits,exp in out:
        f.write('\t{%s, %s, []any{%s}, [][]string{%s}, []bool{%s}},\n' % (goquote(name), goquote(q), ', '.join(lits), ', '.join('{'+', '.join(goquote(l) for l in lines)+'}' for lines,_ in exp), ', '.join('true' if e else 'false' for _,e in exp)))
    f.write('}\n')
    f.write('''
// translator validation: each corpus case must behave in the interpreter as it does natively
func H_corpus() {
	k := nondetChoice(len(corpusCases))
	c := corpusCases[k]
	q, err := Parse(c.query)
	if err != nil {
		vassert(false, "parse error: "+c.name)
		return
	}
	code, err := Compile(q)
	if err != nil {
		vassert(len(c.errs) > 0 && c.errs[0], "compile error: "+c.name)
		return
	}
	for d, input := range c.inputs {
		it := code.Run(input)
		n := 0
		gotErr := false
		for n < 9 {
			v, ok := it.Next()
			if !ok {
				break
			}
			if _, isErr := v.(error); isErr {
				gotErr = true
				break
			}
			vassert(n < len(c.expect[d]), "extra output: "+c.name)
			vassert(jsonMarshal(v) == c.expect[d][n], "output differs: "+c.name)
			n++
		}
		vassert(n == len(c.expect[d]), "missing output: "+c.name)
		vassert(gotErr == c.errs[d], "error-ness differs: "+c.name)
	}
	vreach("end")
}
''')
