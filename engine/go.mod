module gosym

go 1.24.0

require (
	github.com/itchyny/timefmt-go v0.1.8
	github.com/mattn/go-runewidth v0.0.19
	golang.org/x/tools v0.29.0
)

require (
	github.com/clipperhouse/stringish v0.1.1 // indirect
	github.com/clipperhouse/uax29/v2 v2.3.0 // indirect
	golang.org/x/mod v0.22.0 // indirect
	golang.org/x/sync v0.10.0 // indirect
)
