module gosym

go 1.24.0

require (
	github.com/itchyny/timefmt-go v0.1.8
	golang.org/x/tools v0.29.0
)

require (
	golang.org/x/mod v0.22.0 // indirect
	golang.org/x/sync v0.10.0 // indirect
)
