package main

import (
	"context"
	"encoding/json"
	"fmt"
	"os"
	"os/exec"
	"path/filepath"
	"strconv"
	"strings"
	"time"
)

// runSelftest: translator validation. Every corpus case (queries and inputs of
// cli/test.yaml) is run with no symbolic value in gosym and natively; transcripts
// must be identical.
func runSelftest() int {
	files := []string{"harness/gojq/corpus_data.go", "harness/gojq/selftest.go"}
	ld, err := loadWithHarness(".", files)
	if err != nil {
		fmt.Fprintln(os.Stderr, err)
		return 2
	}
	fn := ld.pkg.Func("H_SELF_corpus")
	if fn == nil {
		fmt.Fprintln(os.Stderr, "H_SELF_corpus not found")
		return 2
	}
	res := explore(ld, fn, harnessCfg{Name: "H_SELF_corpus", Fuel: 30_000_000, WallS: 900, PanicsOK: true, CollectLabels: true}, nil, nil)
	fmt.Println(res.summary())
	sym := map[string]string{}
	for i, ls := range res.PathLabels {
		var name, tr string
		for _, l := range ls {
			if strings.HasPrefix(l, "case=") {
				name = l[5:]
			}
			if strings.HasPrefix(l, "transcript=") {
				tr = l[11:]
			}
		}
		if res.PathOutcome[i] != "ok" {
			tr = "<" + res.PathOutcome[i] + ">"
		}
		sym[name+"#"+fmt.Sprint(len(sym))] = tr
		_ = name
	}
	// native transcripts
	tmp, _ := os.MkdirTemp("", "gosym-self")
	defer os.RemoveAll(tmp)
	test := `package gojq

import (
	"fmt"
	"testing"
)

func TestZZVerifSelf(t *testing.T) {
	for k := range corpusCases {
		func() {
			defer func() {
				if r := recover(); r != nil {
					fmt.Printf("SELF\t%q\t%q\n", corpusCases[k].name, "<panic: "+fmt.Sprint(r)+">")
				}
			}()
			fmt.Printf("SELF\t%q\t%q\n", corpusCases[k].name, selftestTranscript(k))
		}()
	}
}
`
	testFile := filepath.Join(tmp, "zz_verif_self_test.go")
	os.WriteFile(testFile, []byte(test), 0o644)
	sup, _ := supportSource("native", "gojq")
	supFile := filepath.Join(tmp, "zz_verif_intrinsics.go")
	os.WriteFile(supFile, sup, 0o644)
	repl := map[string]string{
		filepath.Join(opt.repo, "zz_verif_intrinsics.go"): supFile,
		filepath.Join(opt.repo, "zz_verif_self_test.go"):  testFile,
	}
	for _, f := range files {
		repl[filepath.Join(opt.repo, "zz_verif_"+strings.TrimSuffix(filepath.Base(f), ".go")+".go")] = filepath.Join(opt.verif, f)
	}
	ovb, _ := json.Marshal(map[string]any{"Replace": repl})
	ovFile := filepath.Join(tmp, "overlay.json")
	os.WriteFile(ovFile, ovb, 0o644)
	ctx, cancel := context.WithTimeout(context.Background(), 300*time.Second)
	defer cancel()
	cmd := exec.CommandContext(ctx, "go", "test", "-tags", "verif", "-vet=off", "-count=1", "-v", "-overlay", ovFile, "-run", "^TestZZVerifSelf$", ".")
	cmd.Dir = opt.repo
	cmd.Env = append(os.Environ(), "GOFLAGS=-mod=mod", "GOPROXY=off")
	out, _ := cmd.CombinedOutput()
	native := map[string][]string{}
	var order []string
	for _, l := range strings.Split(string(out), "\n") {
		parts := strings.Split(l, "\t")
		if len(parts) == 3 && parts[0] == "SELF" {
			name, _ := strconv.Unquote(parts[1])
			tr, _ := strconv.Unquote(parts[2])
			native[name] = append(native[name], tr)
			order = append(order, name)
		}
	}
	if len(order) == 0 {
		fmt.Println("native run produced no transcript:", string(out))
		return 2
	}
	// compare as multisets per case name
	symBy := map[string][]string{}
	for i, ls := range res.PathLabels {
		var name, tr string
		for _, l := range ls {
			if strings.HasPrefix(l, "case=") {
				name = l[5:]
			}
			if strings.HasPrefix(l, "transcript=") {
				tr = l[11:]
			}
		}
		if res.PathOutcome[i] != "ok" {
			tr = "<" + res.PathOutcome[i] + ">"
		}
		symBy[name] = append(symBy[name], tr)
	}
	same, diff := 0, 0
	seen := map[string]bool{}
	for _, name := range order {
		if seen[name] {
			continue
		}
		seen[name] = true
		a, b := native[name], symBy[name]
		ok := len(a) == len(b)
		if ok {
			used := make([]bool, len(b))
			for _, x := range a {
				found := false
				for j, y := range b {
					if !used[j] && x == y {
						used[j], found = true, true
						break
					}
				}
				if !found {
					ok = false
				}
			}
		}
		if ok {
			same += len(a)
		} else {
			diff++
			fmt.Printf("DIFF %q\n  native: %q\n  gosym : %q\n", name, a, b)
		}
	}
	fmt.Printf("selftest: %d corpus cases identical, %d case names differ (of %d native transcripts)\n", same, diff, len(order))
	if diff > 0 {
		return 1
	}
	return 0
}
