package main

import (
	"context"
	"encoding/json"
	"fmt"
	"os"
	"os/exec"
	"path/filepath"
	"sort"
	"strings"
	"time"
)

// replayFile is what a VIOLATION line points at: everything needed to re-run the
// counterexample against the natively compiled repository.
type replayFile struct {
	Property   string         `json:"property"`
	Harness    string         `json:"harness"`
	Pkg        string         `json:"pkg"`
	Files      []string       `json:"files"`
	Params     map[string]int `json:"params"`
	Mode       string         `json:"replay_mode"` // "" or "race"
	Kind       string         `json:"kind"`
	Msg        string         `json:"msg"`
	Labels     []string       `json:"labels"`
	Signature  string         `json:"signature"`
	Where      string         `json:"where"`
	Values     []string       `json:"values"`
	Reproduced bool           `json:"reproduced"`
	Output     string         `json:"native_output"`
	Command    string         `json:"command"`
}

func goStringSlice(v []string) string {
	var sb strings.Builder
	sb.WriteString("[]string{")
	for i, s := range v {
		if i > 0 {
			sb.WriteString(", ")
		}
		sb.WriteString(fmt.Sprintf("%q", s))
	}
	sb.WriteString("}")
	return sb.String()
}

// replayNative compiles the harness natively (intrinsics popping the recorded
// values) inside the repository by overlay and runs it as a test. It returns
// whether the failure reproduced and an excerpt of the output.
func replayNative(rf *replayFile) (bool, string) {
	tmp, err := os.MkdirTemp("", "gosym-replay")
	if err != nil {
		return false, err.Error()
	}
	defer os.RemoveAll(tmp)
	pkgName := pkgNameOf(rf.Pkg)
	pkgDir := filepath.Join(opt.repo, rf.Pkg)
	var params strings.Builder
	var keys []string
	for k := range rf.Params {
		keys = append(keys, k)
	}
	sort.Strings(keys)
	for _, k := range keys {
		fmt.Fprintf(&params, "\treplayParams[%q] = %d\n", k, rf.Params[k])
	}
	test := fmt.Sprintf(`package %s

import (
	"fmt"
	"strings"
	"testing"
)

func TestZZVerifReplay(t *testing.T) {
	replayVals = %s
%s
	defer func() {
		if r := recover(); r != nil {
			msg := fmt.Sprint(r)
			if strings.HasPrefix(msg, "REPLAY:") {
				t.Fatalf("NOT-REPRODUCED: %%s", msg)
			}
			t.Fatalf("REPRODUCED: %%s", msg)
		}
	}()
	%s()
}
`, pkgName, goStringSlice(rf.Values), params.String(), rf.Harness)
	testFile := filepath.Join(tmp, "zz_verif_replay_test.go")
	os.WriteFile(testFile, []byte(test), 0o644)
	sup, err := supportSource("native", pkgName)
	if err != nil {
		return false, err.Error()
	}
	supFile := filepath.Join(tmp, "zz_verif_intrinsics.go")
	os.WriteFile(supFile, sup, 0o644)
	repl := map[string]string{
		filepath.Join(pkgDir, "zz_verif_intrinsics.go"):  supFile,
		filepath.Join(pkgDir, "zz_verif_replay_test.go"): testFile,
	}
	for _, f := range rf.Files {
		real := f
		if !filepath.IsAbs(real) {
			real = filepath.Join(opt.verif, f)
		}
		if src, err := harnessSource(real, pkgName); err == nil && strings.HasPrefix(string(src), "//verif:anypkg") {
			real = filepath.Join(tmp, "shared_"+filepath.Base(f))
			os.WriteFile(real, src, 0o644)
		}
		repl[filepath.Join(pkgDir, "zz_verif_"+strings.TrimSuffix(filepath.Base(f), ".go")+".go")] = real
	}
	ovb, _ := json.Marshal(map[string]any{"Replace": repl})
	ovFile := filepath.Join(tmp, "overlay.json")
	os.WriteFile(ovFile, ovb, 0o644)
	args := []string{"test", "-tags", "verif", "-vet=off", "-count=1", "-overlay", ovFile, "-run", "^TestZZVerifReplay$", "-timeout", "240s"}
	if rf.Mode == "race" {
		args = append(args, "-race")
	}
	pat := "./" + rf.Pkg
	if rf.Pkg == "." || rf.Pkg == "" {
		pat = "."
	}
	args = append(args, pat)
	ctx, cancel := context.WithTimeout(context.Background(), 400*time.Second)
	defer cancel()
	cmd := exec.CommandContext(ctx, "go", args...)
	cmd.Dir = opt.repo
	cmd.Env = append(os.Environ(), "GOFLAGS=-mod=mod", "GOPROXY=off")
	out, _ := cmd.CombinedOutput()
	text := string(out)
	rf.Command = "cd " + opt.repo + " && go " + strings.Join(args, " ")
	var keep []string
	for _, l := range strings.Split(text, "\n") {
		if strings.Contains(l, "REPRODUCED") || strings.HasPrefix(l, "panic:") || strings.HasPrefix(l, "fatal error:") ||
			strings.Contains(l, "DATA RACE") || strings.HasPrefix(l, "ok") || strings.HasPrefix(l, "FAIL") || strings.Contains(l, "stack overflow") {
			keep = append(keep, strings.TrimSpace(l))
		}
	}
	excerpt := strings.Join(keep, " / ")
	if len(excerpt) > 1500 {
		excerpt = excerpt[:1500]
	}
	if strings.Contains(text, "NOT-REPRODUCED") {
		return false, excerpt
	}
	repro := strings.Contains(text, "REPRODUCED") || strings.Contains(text, "\npanic:") || strings.HasPrefix(text, "panic:") ||
		strings.Contains(text, "fatal error:") || strings.Contains(text, "DATA RACE")
	if !repro && !strings.Contains(text, "ok ") && excerpt == "" {
		// build failure or similar: keep the tail of the output for diagnosis
		tail := text
		if len(tail) > 800 {
			tail = tail[len(tail)-800:]
		}
		excerpt = "native replay did not run: " + tail
	}
	return repro, excerpt
}

func runReplayFile(path string) int {
	b, err := os.ReadFile(path)
	if err != nil {
		fmt.Fprintln(os.Stderr, err)
		return 2
	}
	var rf replayFile
	if err := json.Unmarshal(b, &rf); err != nil {
		fmt.Fprintln(os.Stderr, err)
		return 2
	}
	ok, out := replayNative(&rf)
	fmt.Printf("replay %s %s: reproduced=%v\n  %s\n  %s\n", rf.Property, rf.Harness, ok, rf.Command, out)
	if ok {
		fmt.Printf("VIOLATION property=%s replay=%s\n", rf.Property, path)
		return 1
	}
	return 0
}
