package main

import (
	"fmt"
	"os"
	"path/filepath"
	"strings"
	"time"

	"golang.org/x/tools/go/packages"
	"golang.org/x/tools/go/ssa"
	"golang.org/x/tools/go/ssa/ssautil"
)

// loaded is one package of the repository with harness files injected by overlay.
type loaded struct {
	prog     *ssa.Program
	pkg      *ssa.Package
	pkgName  string
	pkgDir   string            // absolute directory of the package in the repo
	virt     map[string]string // virtual overlay path -> real harness file
	dropped  []string          // harness files that no longer type-check against the tree
	loadTime time.Duration
}

func supportSource(kind, pkgName string) ([]byte, error) {
	src, err := os.ReadFile(filepath.Join(opt.verif, "harness", "support", kind+".go.tmpl"))
	if err != nil {
		return nil, err
	}
	return []byte(strings.Replace(string(src), "PKGNAME", pkgName, 1)), nil
}

// harnessSource reads a harness file; files that start with //verif:anypkg are shared
// between packages and get their package clause rewritten.
func harnessSource(real, pkgName string) ([]byte, error) {
	src, err := os.ReadFile(real)
	if err != nil {
		return nil, err
	}
	if strings.HasPrefix(string(src), "//verif:anypkg") {
		src = []byte(strings.Replace(string(src), "\npackage gojq\n", "\npackage "+pkgName+"\n", 1))
	}
	return src, nil
}

func pkgNameOf(pkgRel string) string {
	if pkgRel == "." || pkgRel == "" {
		return "gojq"
	}
	return filepath.Base(pkgRel)
}

// loadWithHarness loads <repo>/<pkgRel> with the given harness files (paths
// relative to the verif dir) injected as zz_verif_<n>.go, builds SSA for the
// whole program, and drops harness files that do not type-check.
func loadWithHarness(pkgRel string, files []string) (*loaded, error) {
	t0 := time.Now()
	pkgDir := filepath.Join(opt.repo, pkgRel)
	name := pkgNameOf(pkgRel)
	res := &loaded{pkgName: name, pkgDir: pkgDir}
	active := append([]string(nil), files...)
	for attempt := 0; attempt < 4; attempt++ {
		overlay := map[string][]byte{}
		virt := map[string]string{}
		sup, err := supportSource("sym", name)
		if err != nil {
			return nil, err
		}
		overlay[filepath.Join(pkgDir, "zz_verif_intrinsics.go")] = sup
		for _, f := range active {
			real := f
			if !filepath.IsAbs(real) {
				real = filepath.Join(opt.verif, f)
			}
			src, err := harnessSource(real, name)
			if err != nil {
				return nil, err
			}
			v := filepath.Join(pkgDir, "zz_verif_"+strings.TrimSuffix(filepath.Base(f), ".go")+".go")
			overlay[v] = src
			virt[v] = real
		}
		cfg := &packages.Config{Mode: packages.LoadAllSyntax, Dir: opt.repo, Overlay: overlay, BuildFlags: []string{"-tags=verif"},
			Env: append(os.Environ(), "GOFLAGS=-mod=mod", "GOPROXY=off")}
		pat := "./" + pkgRel
		if pkgRel == "." || pkgRel == "" {
			pat = "."
		}
		pkgs, err := packages.Load(cfg, pat)
		if err != nil {
			return nil, err
		}
		if len(pkgs) != 1 {
			return nil, fmt.Errorf("expected one package for %s, got %d", pat, len(pkgs))
		}
		// collect errors: in harness overlay files -> drop the file; elsewhere -> fatal
		bad := map[string]bool{}
		var fatal []string
		packages.Visit(pkgs, nil, func(p *packages.Package) {
			for _, e := range p.Errors {
				file := e.Pos
				if i := strings.Index(file, ":"); i >= 0 {
					file = file[:i]
				}
				if real, ok := virt[file]; ok {
					bad[real] = true
					fmt.Fprintf(os.Stderr, "harness binding error: %s\n", e)
				} else {
					fatal = append(fatal, e.Error())
				}
			}
		})
		if len(bad) > 0 {
			var keep []string
			for _, f := range active {
				real := f
				if !filepath.IsAbs(real) {
					real = filepath.Join(opt.verif, f)
				}
				if bad[real] {
					res.dropped = append(res.dropped, f)
				} else {
					keep = append(keep, f)
				}
			}
			active = keep
			continue
		}
		if len(fatal) > 0 {
			return nil, fmt.Errorf("repository does not build: %s", strings.Join(fatal, "; "))
		}
		prog, spkgs := ssautil.AllPackages(pkgs, ssa.InstantiateGenerics)
		prog.Build()
		res.prog, res.pkg, res.virt = prog, spkgs[0], virt
		res.loadTime = time.Since(t0)
		return res, nil
	}
	return nil, fmt.Errorf("harness files keep failing to type-check")
}
