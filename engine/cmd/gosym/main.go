// gosym: bounded symbolic execution of Go SSA with SMT-decided branches and
// obligations. Sub-commands:
//
//	gosym check  -prop C10 -tier quick      run a property's registered harnesses
//	gosym run    -files a.go,b.go -run H_   development: run harnesses from files
//	gosym replay -file evidence/replays/x.json
package main

import (
	"flag"
	"fmt"
	"os"
	"runtime/debug"
	"runtime/pprof"
	"strings"
)

type options struct {
	repo, verif string
	workers     int
	solver      string
	verbose     bool
	trace       bool
	smtlog      bool
}

var opt options

func main() {
	if len(os.Args) < 2 {
		fmt.Fprintln(os.Stderr, "usage: gosym check|run|replay ...")
		os.Exit(2)
	}
	cmd := os.Args[1]
	debug.SetGCPercent(400)
	fs := flag.NewFlagSet(cmd, flag.ExitOnError)
	fs.StringVar(&opt.repo, "repo", "/repo", "repository under test")
	fs.StringVar(&opt.verif, "verif", "/verif", "verification directory")
	fs.IntVar(&opt.workers, "j", 16, "parallel workers")
	fs.StringVar(&opt.solver, "solver", "z3-new", "primary solver binary")
	fs.BoolVar(&opt.verbose, "v", false, "verbose")
	fs.BoolVar(&opt.trace, "trace", false, "trace instructions")
	fs.BoolVar(&opt.smtlog, "smtlog", false, "log solver input to stderr")
	switch cmd {
	case "check":
		prop := fs.String("prop", "", "property id")
		tier := fs.String("tier", "quick", "quick|thorough")
		only := fs.String("only", "", "comma-separated harness names (development)")
		noEvidence := fs.Bool("no-evidence", false, "do not write the evidence file")
		fs.Parse(os.Args[2:])
		os.Exit(runCheck(*prop, *tier, splitList(*only), !*noEvidence))
	case "run":
		files := fs.String("files", "", "comma-separated harness files")
		pkg := fs.String("pkg", ".", "package (relative to repo)")
		run := fs.String("run", "H_", "harness name prefix")
		mode := fs.String("mode", "bv", "bv|int")
		maxPaths := fs.Int("maxpaths", 200000, "path budget")
		fuel := fs.Int("fuel", 20000000, "instruction budget per path")
		obligMs := fs.Int("obligms", 30000, "obligation timeout ms")
		params := fs.String("params", "", "k=v,k=v harness parameters")
		replay := fs.Bool("replay", false, "replay violations natively")
		panicsOK := fs.Bool("panics-ok", false, "target panics are not violations")
		wall := fs.Int("wall", 3600, "wall-clock budget in seconds")
		prof := fs.String("cpuprofile", "", "write a CPU profile")
		enum := fs.String("enumerate", "", "functions whose integer results are enumerated by forking")
		fs.Parse(os.Args[2:])
		if *prof != "" {
			f, _ := os.Create(*prof)
			pprof.StartCPUProfile(f)
			defer pprof.StopCPUProfile()
		}
		rc := runDev(splitList(*files), *pkg, *run, *mode, *maxPaths, *fuel, *obligMs, parseParams(*params), *replay, *panicsOK, *wall, splitList(*enum))
		pprof.StopCPUProfile()
		os.Exit(rc)
	case "selftest":
		fs.Parse(os.Args[2:])
		os.Exit(runSelftest())
	case "replay":
		file := fs.String("file", "", "replay file")
		fs.Parse(os.Args[2:])
		os.Exit(runReplayFile(*file))
	default:
		fmt.Fprintln(os.Stderr, "unknown command", cmd)
		os.Exit(2)
	}
}

func splitList(s string) []string {
	if s == "" {
		return nil
	}
	return strings.Split(s, ",")
}

func parseParams(s string) map[string]int {
	m := map[string]int{}
	for _, kv := range splitList(s) {
		k, v, ok := strings.Cut(kv, "=")
		if !ok {
			continue
		}
		n := 0
		fmt.Sscan(v, &n)
		m[k] = n
	}
	return m
}
