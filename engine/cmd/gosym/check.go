package main

import (
	"bufio"
	"encoding/json"
	"fmt"
	"os"
	"path/filepath"
	"regexp"
	"sort"
	"strconv"
	"strings"
	"time"
)

type groupCfg struct {
	Pkg       string       `json:"pkg"`
	Files     []string     `json:"files"`
	Harnesses []harnessCfg `json:"harnesses"`
}

type checkCfg struct {
	Property    string     `json:"property"`
	Level       string     `json:"level"`
	Explanation string     `json:"explanation"`
	Rule        string     `json:"rule"`
	Bounds      string     `json:"bounds"`
	Assumptions []string   `json:"assumptions"`
	Groups      []groupCfg `json:"groups"`
}

type knownFinding struct {
	Property, Harness, What string
	Match                   *regexp.Regexp
}

// loadKnown parses /verif/known_findings.txt. Lines:
//
//	known: property=C02 harness=H_x match=/regex over the violation signature/ what=free text
//	fixed: property=C04 <commit> <what failed>        (documentation only, suppresses nothing)
func loadKnown() []knownFinding {
	f, err := os.Open(filepath.Join(opt.verif, "known_findings.txt"))
	if err != nil {
		return nil
	}
	defer f.Close()
	var out []knownFinding
	re := regexp.MustCompile(`^known:\s+property=(\S+)\s+harness=(\S+)\s+match=/(.*)/\s+what=(.*)$`)
	sc := bufio.NewScanner(f)
	sc.Buffer(make([]byte, 1<<20), 1<<20)
	for sc.Scan() {
		line := strings.TrimSpace(sc.Text())
		m := re.FindStringSubmatch(line)
		if m == nil {
			continue
		}
		rx, err := regexp.Compile(m[3])
		if err != nil {
			fmt.Fprintf(os.Stderr, "known_findings: bad regex %q: %v\n", m[3], err)
			continue
		}
		out = append(out, knownFinding{Property: m[1], Harness: m[2], Match: rx, What: m[4]})
	}
	return out
}

func inTier(hc harnessCfg, tier string) bool {
	if len(hc.Tiers) == 0 {
		return true
	}
	for _, t := range hc.Tiers {
		if t == tier {
			return true
		}
	}
	return false
}

func effectiveParams(hc harnessCfg, tier string) map[string]int {
	p := map[string]int{}
	for k, v := range hc.Params {
		p[k] = v
	}
	if tier == "thorough" {
		for k, v := range hc.ParamsT {
			p[k] = v
		}
	}
	return p
}

type harnessEvidence struct {
	Name         string         `json:"name"`
	Pkg          string         `json:"pkg"`
	Mode         string         `json:"rendering"`
	Params       map[string]int `json:"params,omitempty"`
	Paths        int            `json:"paths"`
	Completed    int            `json:"completed_paths"`
	Pruned       int            `json:"pruned_by_assumption_or_infeasible"`
	Aborts       int            `json:"aborted_paths"`
	Panics       int            `json:"expected_panics"`
	Obligations  int            `json:"obligations"`
	Discharged   int            `json:"discharged_unsat"`
	Inconclusive int            `json:"inconclusive"`
	Queries      map[string]int `json:"solver_queries"`
	SolverS      float64        `json:"solver_s"`
	Steps        int            `json:"ssa_instructions_executed"`
	Funcs        int            `json:"functions_encoded"`
	Exhaustive   bool           `json:"exhaustive_within_bounds"`
	Budget       string         `json:"budget_hit,omitempty"`
	Aborted      map[string]int `json:"abort_reasons,omitempty"`
	Reached      []string       `json:"reach_labels_hit"`
	Missing      []string       `json:"reach_labels_missing,omitempty"`
	Violations   int            `json:"violations"`
	WallS        float64        `json:"wall_s"`
	Note         string         `json:"note,omitempty"`
}

func runCheck(prop, tier string, only []string, writeEvidence bool) int {
	t0 := time.Now()
	if tier != "quick" && tier != "thorough" {
		fmt.Fprintln(os.Stderr, "tier must be quick or thorough")
		return 2
	}
	if t := os.Getenv("VERIF_TIER"); t == "quick" || t == "thorough" {
		// an explicit -tier wins; VERIF_TIER is informational here
		_ = t
	}
	seed := 0
	if s := os.Getenv("VERIF_SEED"); s != "" {
		seed, _ = strconv.Atoi(s)
	}
	b, err := os.ReadFile(filepath.Join(opt.verif, "checks", prop+".json"))
	if err != nil {
		fmt.Fprintln(os.Stderr, err)
		return 2
	}
	var cfg checkCfg
	if err := json.Unmarshal(b, &cfg); err != nil {
		fmt.Fprintf(os.Stderr, "checks/%s.json: %v\n", prop, err)
		return 2
	}
	known := loadKnown()
	onlySet := map[string]bool{}
	for _, o := range only {
		onlySet[o] = true
	}
	os.MkdirAll(filepath.Join(opt.verif, "evidence", "replays"), 0o755)

	var hev []harnessEvidence
	funcsAll := map[string]int{}
	stubsAll := map[string]int{}
	var samples []any
	var unbound, vacuous, unreproduced, knownLines, violationLines []string
	var inconclusiveItems []string
	totals := struct{ paths, completed, nontrivial, oblig, disch, sat, unsat, unknown, queries int }{}
	var solverTime time.Duration
	exhaustive := true
	nReplay := 0

	for _, g := range cfg.Groups {
		var todo []harnessCfg
		for _, h := range g.Harnesses {
			if !inTier(h, tier) {
				continue
			}
			if len(onlySet) > 0 && !onlySet[h.Name] {
				continue
			}
			todo = append(todo, h)
		}
		if len(todo) == 0 {
			continue
		}
		ld, err := loadWithHarness(g.Pkg, g.Files)
		if err != nil {
			fmt.Fprintf(os.Stderr, "load %s: %v\n", g.Pkg, err)
			return 2
		}
		unbound = append(unbound, ld.dropped...)
		for _, h := range todo {
			fn := ld.pkg.Func(h.Name)
			if fn == nil {
				unbound = append(unbound, h.Name+" (harness function not found; its file may have been dropped)")
				exhaustive = false
				continue
			}
			params := effectiveParams(h, tier)
			if tier == "quick" && (h.WallS == 0 || h.WallS > 420) {
				h.WallS = 420 // the quick tier never spends more than 7 minutes in one harness
			}
			if tier == "thorough" && (h.WallS == 0 || h.WallS > 1500) {
				h.WallS = 1500 // the thorough tier never spends more than 25 minutes in one harness (a budget stop is reported, never counted as success)
			}
			var hk []knownFinding
			for _, k := range known {
				if k.Property == prop {
					hk = append(hk, k)
				}
			}
			res := explore(ld, fn, h, params, hk)
			fmt.Println(res.summary())
			he := harnessEvidence{Name: h.Name, Pkg: g.Pkg, Mode: h.Mode, Params: params, Paths: res.Paths, Completed: res.Completed, Pruned: res.Pruned,
				Aborts: res.Aborts, Panics: res.Panics, Obligations: res.Obligations, Discharged: res.Discharged, Inconclusive: res.Inconclusive,
				Queries: map[string]int{"total": res.Queries, "sat": res.Sat, "unsat": res.Unsat, "unknown": res.Unknown}, SolverS: res.SolverTime.Seconds(),
				Steps: res.Steps, Funcs: len(res.Funcs), Exhaustive: res.Exhaustive, Budget: res.BudgetHit, Aborted: res.AbortReasons, WallS: res.Wall.Seconds(), Note: h.Note}
			if he.Mode == "" {
				he.Mode = "bv"
			}
			for l := range res.Reached {
				he.Reached = append(he.Reached, l)
			}
			sort.Strings(he.Reached)
			for _, l := range h.Reach {
				if !res.Reached[l] {
					he.Missing = append(he.Missing, l)
				}
			}
			if len(he.Missing) > 0 || res.Completed == 0 {
				vacuous = append(vacuous, fmt.Sprintf("%s: reach labels missing %v, completed paths %d", h.Name, he.Missing, res.Completed))
				fmt.Printf("  WARNING vacuous: %s reach labels missing %v, completed paths %d\n", h.Name, he.Missing, res.Completed)
			}
			if res.Inconclusive > 0 {
				inconclusiveItems = append(inconclusiveItems, fmt.Sprintf("%s: %d obligations unknown/timeout", h.Name, res.Inconclusive))
			}
			for r, n := range res.AbortReasons {
				inconclusiveItems = append(inconclusiveItems, fmt.Sprintf("%s: %d paths aborted: %s", h.Name, n, r))
			}
			if !res.Exhaustive {
				exhaustive = false
			}
			for f, n := range res.Funcs {
				funcsAll[f] += n
			}
			for s, n := range res.Stubs {
				stubsAll[s] += n
			}
			for _, w := range res.Witnesses {
				if len(samples) < 12 {
					samples = append(samples, map[string]any{"harness": h.Name, "completed_path_model": w})
				}
			}
			totals.paths += res.Paths
			totals.completed += res.Completed
			totals.nontrivial += res.Nontrivial
			totals.oblig += res.Obligations
			totals.disch += res.Discharged
			totals.sat += res.Sat
			totals.unsat += res.Unsat
			totals.unknown += res.Unknown
			totals.queries += res.Queries
			solverTime += res.SolverTime

			// confirm violations natively, then classify
			nNew := 0
			for i, v := range res.Violations {
				if v.KnownIdx == 0 {
					nNew++
					if nNew > 4 {
						continue
					}
				}
				nReplay++
				rf := &replayFile{Property: prop, Harness: h.Name, Pkg: g.Pkg, Files: g.Files, Params: params, Mode: h.Replay,
					Kind: v.Kind, Msg: v.Msg, Labels: v.Labels, Signature: v.Signature, Where: v.Where, Values: v.Values}
				if v.Kind == "ambient" {
					// observed directly in the executed code (a call into os/syscall/... on a
					// feasible path); there is nothing further to confirm natively
					rf.Reproduced, rf.Output = true, "direct observation by the interpreter's call monitor (no native replay)"
				} else {
					rf.Reproduced, rf.Output = replayNative(rf)
				}
				path := filepath.Join(opt.verif, "evidence", "replays", fmt.Sprintf("%s-%s-%d.json", prop, h.Name, i+1))
				jb, _ := json.MarshalIndent(rf, "", " ")
				os.WriteFile(path, jb, 0o644)
				if !rf.Reproduced {
					unreproduced = append(unreproduced, fmt.Sprintf("%s: %s (native: %s)", h.Name, v.Signature, rf.Output))
					fmt.Printf("  UNREPRODUCED %s: %s\n    native: %s\n", h.Name, v.Signature, rf.Output)
					continue
				}
				matched := false
				for _, k := range known {
					if k.Property == prop && (k.Harness == h.Name || k.Harness == "*") && k.Match.MatchString(v.Signature) {
						line := fmt.Sprintf("KNOWN-FINDING: property=%s %s [harness %s: %s]", prop, k.What, h.Name, v.Signature)
						knownLines = append(knownLines, line)
						matched = true
						break
					}
				}
				if !matched {
					he.Violations++
					violationLines = append(violationLines, fmt.Sprintf("VIOLATION property=%s replay=%s", prop, path))
					fmt.Printf("  violated: %s %s\n    values=%v\n    native: %s\n", h.Name, v.Signature, v.Values, rf.Output)
				}
				samples = append(samples, map[string]any{"harness": h.Name, "counterexample": v.Signature, "values": v.Values, "reproduced_natively": rf.Reproduced})
			}
			hev = append(hev, he)
		}
	}
	if len(samples) == 0 {
		samples = append(samples, map[string]any{"note": "no harness with symbolic inputs completed a path"})
	}
	var funcs []string
	for f := range funcsAll {
		funcs = append(funcs, f)
	}
	sort.Strings(funcs)
	level := cfg.Level
	if level == "" {
		level = "other"
	}
	cov := map[string]any{
		"explanation":         cfg.Explanation,
		"rule":                cfg.Rule + " A case is one explored path of a harness (a family of concrete inputs sharing control flow); distinct_nontrivial counts completed paths on which at least one branch or obligation was decided by the solver.",
		"bounds":              cfg.Bounds,
		"evaluations":         totals.paths,
		"distinct_nontrivial": totals.nontrivial,
		"completed_paths":     totals.completed,
		"obligations":         totals.oblig,
		"discharged":          totals.disch,
		"exhaustive":          exhaustive,
		"samples":             samples,
		"solver":              map[string]any{"binary": opt.solver, "queries": totals.queries, "sat": totals.sat, "unsat": totals.unsat, "unknown": totals.unknown, "wall_s": solverTime.Seconds()},
		"functions_encoded":   funcs,
		"functions_encoded_n": len(funcs),
		"harnesses":           hev,
		"stubs_hit":           stubsAll,
		"inconclusive":        inconclusiveItems,
		"unreproduced":        unreproduced,
		"unbound_harnesses":   unbound,
		"vacuous":             vacuous,
		"known_findings":      knownLines,
		"native_replays":      nReplay,
		"encoding_source":     "go/ssa built from " + opt.repo + " working tree at run time (go/packages overlay injects the harness files)",
	}
	ev := map[string]any{
		"property_id": prop, "tier": tier, "seed": seed, "level": level, "coverage": cov,
		"assumptions": cfg.Assumptions, "wall_s": time.Since(t0).Seconds(), "violations": len(violationLines),
	}
	if writeEvidence {
		eb, _ := json.MarshalIndent(ev, "", " ")
		if err := os.WriteFile(filepath.Join(opt.verif, "evidence", prop+".json"), append(eb, '\n'), 0o644); err != nil {
			fmt.Fprintln(os.Stderr, err)
			return 2
		}
	}
	for _, l := range knownLines {
		fmt.Println(l)
	}
	fmt.Printf("%s %s: paths=%d obligations=%d discharged=%d inconclusive-items=%d unreproduced=%d vacuous=%d wall=%v\n", prop, tier,
		totals.paths, totals.oblig, totals.disch, len(inconclusiveItems), len(unreproduced), len(vacuous), time.Since(t0).Round(time.Millisecond))
	if len(violationLines) > 0 {
		for _, l := range violationLines {
			fmt.Println(l)
		}
		return 1
	}
	return 0
}

func runDev(files []string, pkg, prefix, mode string, maxPaths, fuel, obligMs int, params map[string]int, replay, panicsOK bool, wall int, enum []string) int {
	ld, err := loadWithHarness(pkg, files)
	if err != nil {
		fmt.Fprintln(os.Stderr, err)
		return 2
	}
	fmt.Printf("loaded+built in %v (dropped %v)\n", ld.loadTime.Round(time.Millisecond), ld.dropped)
	var names []string
	for name := range ld.pkg.Members {
		if fn := ld.pkg.Func(name); fn != nil && regexp.MustCompile("^(?:"+prefix+")").MatchString(name) {
			names = append(names, name)
		}
	}
	sort.Strings(names)
	exit := 0
	for _, name := range names {
		hc := harnessCfg{Name: name, Mode: mode, MaxPaths: maxPaths, Fuel: fuel, ObligMs: obligMs, PanicsOK: panicsOK, WallS: wall, Enumerate: enum}
		res := explore(ld, ld.pkg.Func(name), hc, params, loadKnown())
		fmt.Println(res.summary())
		var ls []string
		for l := range res.Reached {
			ls = append(ls, l)
		}
		sort.Strings(ls)
		fmt.Printf("  reached: %v\n", ls)
		for _, w := range res.Witnesses[:min(1, len(res.Witnesses))] {
			fmt.Printf("  witness: %v\n", w)
		}
		for _, v := range res.Violations {
			exit = 1
			fmt.Printf("  VIOLATION %s [%s] x%d values=%v where=%s\n", v.Signature, v.Kind, v.Count, v.Values, v.Where)
			if replay {
				rf := &replayFile{Property: "dev", Harness: name, Pkg: pkg, Files: files, Params: params, Kind: v.Kind, Msg: v.Msg, Values: v.Values}
				ok, out := replayNative(rf)
				fmt.Printf("    replay reproduced=%v: %s\n", ok, out)
			}
		}
	}
	return exit
}
