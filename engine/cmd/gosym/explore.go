package main

import (
	"fmt"
	"regexp"
	"math/big"
	"os"
	"sort"
	"strings"
	"sync"
	"time"

	"golang.org/x/tools/go/ssa"

	gexec "gosym/exec"
	"gosym/smt"
)

// harnessCfg is the per-harness configuration (from checks/Cnn.json or flags).
type harnessCfg struct {
	Name     string         `json:"name"`
	Mode     string         `json:"mode"`      // "bv" (default) or "int"
	Tiers    []string       `json:"tiers"`     // tiers in which the harness runs (default: both)
	MaxPaths int            `json:"maxpaths"`  // path budget (0 = default)
	Fuel     int            `json:"fuel"`      // instruction budget per path
	ObligMs  int            `json:"oblig_ms"`  // per-obligation solver limit
	FeasMs   int            `json:"feas_ms"`   // per-feasibility-query solver limit
	WallS    int            `json:"wall_s"`    // wall-clock budget for the harness
	Reach    []string       `json:"reach"`     // vreach labels that must be hit (vacuity guard)
	PanicsOK bool           `json:"panics_ok"` // target panics are expected behaviour, not violations
	Params   map[string]int `json:"params"`    // vparam values (all tiers)
	ParamsT  map[string]int `json:"params_thorough"`
	Replay   string         `json:"replay"` // "", "race": how counterexamples are confirmed natively
	Fresh    bool           `json:"fresh"`  // discharge FP obligations in a fresh solver process
	Note     string         `json:"note"`
	MaxViol  int            `json:"max_violations"`
	Asserts  string         `json:"asserts"` // regex: only assertions whose message matches belong to this property
	Enumerate []string      `json:"enumerate_results"` // functions whose integer results are made concrete by forking
	CollectLabels bool      `json:"-"`
}

type violationRec struct {
	Harness   string            `json:"harness"`
	Kind      string            `json:"kind"`
	Msg       string            `json:"msg"`
	Labels    []string          `json:"labels,omitempty"`
	Signature string            `json:"signature"`
	Model     map[string]string `json:"model,omitempty"`
	Values    []string          `json:"values"`
	Count     int               `json:"count"`
	KnownIdx  int               `json:"-"`
	Where     string            `json:"where,omitempty"`
}

type harnessResult struct {
	Name                                      string
	Paths, Completed, Panics, Aborts, Pruned  int
	Obligations, Discharged, Inconclusive     int
	Sat, Unsat, Unknown, Queries              int
	SolverTime                                time.Duration
	Steps                                     int
	Funcs                                     map[string]int
	AbortReasons                              map[string]int
	PanicMsgs                                 map[string]int
	Violations                                []*violationRec
	Reached                                   map[string]bool
	Witnesses                                 []map[string]string
	Exhaustive                                bool
	Nontrivial                                int
	Wall                                      time.Duration
	BudgetHit                                 string
	Unsupported                               int
	Stubs                                     map[string]int
	PathLabels                                [][]string
	PathOutcome                               []string
}

func signature(msg string, labels []string) string {
	return msg + " | " + strings.Join(labels, " | ")
}

func explore(ld *loaded, fn *ssa.Function, hc harnessCfg, params map[string]int, known []knownFinding) *harnessResult {
	t0 := time.Now()
	res := &harnessResult{Name: fn.Name(), Funcs: map[string]int{}, AbortReasons: map[string]int{}, PanicMsgs: map[string]int{},
		Reached: map[string]bool{}, Stubs: map[string]int{}}
	maxPaths := hc.MaxPaths
	if maxPaths == 0 {
		maxPaths = 200000
	}
	fuel := hc.Fuel
	if fuel == 0 {
		fuel = 20_000_000
	}
	obligMs := hc.ObligMs
	if obligMs == 0 {
		obligMs = 30000
	}
	feasMs := hc.FeasMs
	if feasMs == 0 {
		feasMs = 2000
	}
	wall := time.Duration(hc.WallS) * time.Second
	if wall == 0 {
		wall = 600 * time.Second
	}
	maxViol := hc.MaxViol
	if maxViol == 0 {
		maxViol = 8
	}
	deadline := t0.Add(wall)
	var assertRx *regexp.Regexp
	if hc.Asserts != "" {
		assertRx = regexp.MustCompile(hc.Asserts)
	}

	var mu sync.Mutex
	pending := []gexec.PendingPath{{}}
	active := 0
	cond := sync.NewCond(&mu)
	funcs := map[*ssa.Function]int{}
	sigs := map[string]*violationRec{}
	knownSeen := map[int]bool{}
	nUnknown := 0
	stop := false

	worker := func(id int) {
		st := smt.NewStore()
		solver, err := smt.NewSolver(opt.solver, "-in")
		if err != nil {
			panic(err)
		}
		defer func() { solver.Close() }()
		solver.IntMode = hc.Mode == "int"
		solver.Store = st
		if opt.smtlog {
			solver.Log = os.Stderr
		}
		tmplPending := []gexec.PendingPath{}
		tmpl := gexec.NewInterp(ld.prog, gexec.NewCtx(st, solver, gexec.PendingPath{}, 0, nil, &tmplPending))
		var prevTrace []gexec.Decision
		var prevLevels []int
		for {
			mu.Lock()
			for len(pending) == 0 && active > 0 && !stop {
				cond.Wait()
			}
			if stop || len(pending) == 0 {
				mu.Unlock()
				cond.Broadcast()
				return
			}
			if res.Paths >= maxPaths {
				res.BudgetHit = fmt.Sprintf("path budget %d", maxPaths)
				stop = true
				mu.Unlock()
				cond.Broadcast()
				return
			}
			if time.Now().After(deadline) {
				res.BudgetHit = fmt.Sprintf("wall budget %v", wall)
				stop = true
				mu.Unlock()
				cond.Broadcast()
				return
			}
			pp := pending[len(pending)-1]
			prefix := pp.Prefix
			pending = pending[:len(pending)-1]
			active++
			res.Paths++
			mu.Unlock()

			if solver.Dead {
				solver.Close()
				solver, err = smt.NewSolver(opt.solver, "-in")
				if err != nil {
					panic(err)
				}
				solver.IntMode = hc.Mode == "int"
				solver.Store = st
				prevTrace, prevLevels = nil, nil
			}
			keep := 0
			if prevTrace != nil {
				for keep < len(prefix)-1 && keep < len(prevTrace) && prefix[keep] == prevTrace[keep] {
					keep++
				}
			}
			lvl := 0
			if keep > 0 {
				lvl = prevLevels[keep-1]
			}
			solver.PopTo(lvl)
			var local []gexec.PendingPath
			ctx := gexec.NewCtx(st, solver, pp, keep, prevLevels, &local)
			ctx.NoModel = os.Getenv("GOSYM_NOMODEL") != ""
			ctx.NoSimp = os.Getenv("GOSYM_NOSIMP") != ""
			ctx.FeasMs, ctx.ObligMs = feasMs, obligMs
			if hc.Fresh {
				ctx.SolverBin = opt.solver
			}
			q0 := solver.Stats
			in := gexec.NewInterp(ld.prog, ctx)
			in.Trace = opt.trace
			in.Tmpl = tmpl
			in.Fuel = fuel
			in.Params = params
			in.PanicsOK = hc.PanicsOK
			in.AssertFilter = assertRx
			if len(hc.Enumerate) > 0 {
				in.EnumResults = map[string]bool{}
				for _, e := range hc.Enumerate {
					in.EnumResults[e] = true
				}
			}
			outcome := runPath(in, fn)

			// turn target panics into violations unless the harness expects them
			if tp, isP := outcome.(*gexec.TargetPanic); isP && !hc.PanicsOK {
				m := ctx.Model()
				if m != nil {
					outcome = &gexec.Violation{Kind: "panic", Msg: "panic: " + tp.Msg, Model: m, Replay: ctx.ReplayValues(m), Labels: in.Labels, Where: tp.Where}
				} else {
					outcome = &gexec.Abort{Reason: "panic on a path whose condition could not be modelled (unknown): " + tp.Msg}
				}
			}
			var wit map[string]string
			if outcome == nil {
				mu.Lock()
				need := len(res.Witnesses) < 3
				mu.Unlock()
				if need && len(ctx.Vars) > 0 {
					if m := ctx.Model(); m != nil {
						wit = map[string]string{}
						for i, v := range ctx.ReplayValues(m) {
							wit[fmt.Sprintf("nondet%02d", i)] = v
						}
						for _, l := range in.Labels {
							wit["label:"+l] = ""
						}
					}
				}
			}
			q1 := solver.Stats
			mu.Lock()
			pending = append(pending, local...)
			active--
			switch o := outcome.(type) {
			case nil:
				res.Completed++
				if wit != nil && len(res.Witnesses) < 3 {
					res.Witnesses = append(res.Witnesses, wit)
				}
				if ctx.Queries > 0 || in.Obligations > 0 {
					res.Nontrivial++
				}
				for l := range in.Reached {
					res.Reached[l] = true
				}
			case *gexec.TargetPanic:
				res.Panics++
				res.PanicMsgs[o.Msg]++
			case *gexec.Abort:
				switch {
				case o.Reason == "assumption false" || strings.HasPrefix(o.Reason, "infeasible path"):
					res.Pruned++
				default:
					res.Aborts++
					r := o.Reason
					if i := strings.Index(r, " @ "); i >= 0 && strings.Contains(r, "fuel exhausted") {
						r = r[:i]
					}
					if len(r) > 300 {
						r = r[:300]
					}
					if len(in.Labels) > 0 {
						r += " [" + in.Labels[0] + "]"
					}
					res.AbortReasons[r]++
					if strings.Contains(r, "fuel exhausted") {
						res.BudgetHit = "fuel exhausted on a path (unwinding bound)"
					}
					if strings.Contains(r, "unsupported") {
						res.Unsupported++
					}
				}
			case *gexec.Violation:
				sig := signature(o.Msg, o.Labels)
				if v, ok := sigs[sig]; ok {
					if v.Count > 0 {
						v.Count++
					}
				} else {
					v := &violationRec{Harness: fn.Name(), Kind: o.Kind, Msg: o.Msg, Labels: o.Labels, Signature: sig, Values: o.Replay, Count: 1, Model: map[string]string{}, Where: o.Where}
					for k, x := range o.Model {
						v.Model[k] = x.String()
					}
					sigs[sig] = v
					isKnown := false
					for ki, k := range known {
						if (k.Harness == fn.Name() || k.Harness == "*") && k.Match.MatchString(sig) {
							isKnown = true
							v.KnownIdx = ki + 1
							// keep one representative per listed finding for the native replay
							if knownSeen[ki] {
								v.Count = -1
							}
							knownSeen[ki] = true
							break
						}
					}
					if v.Count != -1 {
						res.Violations = append(res.Violations, v)
					}
					if opt.verbose {
						fmt.Printf("  violation %s: %s values=%v\n", fn.Name(), sig, o.Replay)
					}
					if !isKnown {
						nUnknown++
					}
					if nUnknown >= maxViol {
						res.BudgetHit = fmt.Sprintf("stopped after %d distinct violations", maxViol)
						stop = true
					}
				}
			}
			if opt.verbose {
				fmt.Printf("  path w%d steps=%d outcome=%v\n", id, in.Steps, outcome)
			}
			if hc.CollectLabels {
				res.PathLabels = append(res.PathLabels, append([]string(nil), in.Labels...))
				oc := "ok"
				if outcome != nil {
					oc = fmt.Sprint(outcome)
				}
				res.PathOutcome = append(res.PathOutcome, oc)
			}
			res.Obligations += in.Obligations
			res.Discharged += in.Discharged
			res.Inconclusive += in.Inconclusive
			for _, m := range in.InconclusiveMsgs {
				res.AbortReasons["inconclusive obligation (solver unknown/timeout): "+m]++
			}
			res.Queries += q1.Checks - q0.Checks + ctx.FreshChecks
			res.Sat += q1.Sat - q0.Sat + ctx.FreshSat
			res.Unsat += q1.Unsat - q0.Unsat + ctx.FreshUnsat
			res.Unknown += q1.Unknown - q0.Unknown + ctx.FreshUnknown
			res.SolverTime += q1.Time - q0.Time + ctx.FreshTime
			res.Steps += in.Steps
			for f, n := range in.Funcs {
				funcs[f] += n
			}
			for s, n := range in.StubHits {
				res.Stubs[s] += n
			}
			mu.Unlock()
			cond.Broadcast()
			prevTrace, prevLevels = ctx.Trace, ctx.Levels()
		}
	}
	var wg sync.WaitGroup
	for w := 0; w < opt.workers; w++ {
		wg.Add(1)
		go func(id int) {
			defer wg.Done()
			worker(id)
		}(w)
	}
	wg.Wait()
	for f, n := range funcs {
		res.Funcs[f.String()] = n
	}
	res.Exhaustive = res.BudgetHit == "" && len(pending) == 0 && res.Aborts == 0
	res.Wall = time.Since(t0)
	return res
}

func (r *harnessResult) summary() string {
	s := fmt.Sprintf("%s: paths=%d completed=%d pruned=%d panics=%d aborts=%d violations=%d obligations=%d discharged=%d inconclusive=%d queries=%d(sat %d unsat %d unknown %d) solver=%v steps=%d funcs=%d exhaustive=%v wall=%v",
		r.Name, r.Paths, r.Completed, r.Pruned, r.Panics, r.Aborts, len(r.Violations), r.Obligations, r.Discharged, r.Inconclusive,
		r.Queries, r.Sat, r.Unsat, r.Unknown, r.SolverTime.Round(time.Millisecond), r.Steps, len(r.Funcs), r.Exhaustive, r.Wall.Round(time.Millisecond))
	if r.BudgetHit != "" {
		s += "\n  budget: " + r.BudgetHit
	}
	var rs []string
	for a := range r.AbortReasons {
		rs = append(rs, a)
	}
	sort.Strings(rs)
	for _, a := range rs {
		s += fmt.Sprintf("\n  abort x%d: %s", r.AbortReasons[a], a)
	}
	rs = rs[:0]
	for a := range r.PanicMsgs {
		rs = append(rs, a)
	}
	sort.Strings(rs)
	for _, a := range rs {
		s += fmt.Sprintf("\n  expected-panic x%d: %s", r.PanicMsgs[a], a)
	}
	return s
}

func fmtModel(m map[string]*big.Int) string {
	var ks []string
	for k := range m {
		ks = append(ks, k)
	}
	sort.Strings(ks)
	var sb strings.Builder
	for _, k := range ks {
		fmt.Fprintf(&sb, "%s=%s ", k, m[k].String())
	}
	return sb.String()
}

func runPath(in *gexec.Interp, fn *ssa.Function) (outcome any) {
	defer func() {
		if r := recover(); r != nil {
			switch r := r.(type) {
			case *gexec.TargetPanic, *gexec.Abort, *gexec.Violation:
				outcome = r
			default:
				outcome = &gexec.Abort{Reason: fmt.Sprintf("unsupported: engine internal error: %v", r)}
			}
		}
	}()
	in.Run(fn)
	return nil
}
