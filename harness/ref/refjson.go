//verif:anypkg
package gojq

// Reference readers written for the checks (no use of unicode/utf8, strconv or
// encoding/json): well-formed UTF-8 per the Unicode standard (table 3-7) and a
// strict RFC 8259 reader.

// refRuneLen returns the length of the well-formed UTF-8 sequence starting at s[i],
// or 0 if there is none.
func refRuneLen(s string, i int) int {
	b0 := s[i]
	n := len(s) - i
	cont := func(k int, lo, hi byte) bool { return k < n && lo <= s[i+k] && s[i+k] <= hi }
	switch {
	case b0 < 0x80:
		return 1
	case 0xC2 <= b0 && b0 <= 0xDF:
		if cont(1, 0x80, 0xBF) {
			return 2
		}
	case b0 == 0xE0:
		if cont(1, 0xA0, 0xBF) && cont(2, 0x80, 0xBF) {
			return 3
		}
	case 0xE1 <= b0 && b0 <= 0xEC || b0 == 0xEE || b0 == 0xEF:
		if cont(1, 0x80, 0xBF) && cont(2, 0x80, 0xBF) {
			return 3
		}
	case b0 == 0xED:
		if cont(1, 0x80, 0x9F) && cont(2, 0x80, 0xBF) {
			return 3
		}
	case b0 == 0xF0:
		if cont(1, 0x90, 0xBF) && cont(2, 0x80, 0xBF) && cont(3, 0x80, 0xBF) {
			return 4
		}
	case 0xF1 <= b0 && b0 <= 0xF3:
		if cont(1, 0x80, 0xBF) && cont(2, 0x80, 0xBF) && cont(3, 0x80, 0xBF) {
			return 4
		}
	case b0 == 0xF4:
		if cont(1, 0x80, 0x8F) && cont(2, 0x80, 0xBF) && cont(3, 0x80, 0xBF) {
			return 4
		}
	}
	return 0
}

func refValidUTF8(s string) bool {
	for i := 0; i < len(s); {
		n := refRuneLen(s, i)
		if n == 0 {
			return false
		}
		i += n
	}
	return true
}

// refSanitize replaces every byte that does not start a well-formed sequence by U+FFFD.
func refSanitize(s string) string {
	var out []byte
	for i := 0; i < len(s); {
		n := refRuneLen(s, i)
		if n == 0 {
			out = append(out, 0xEF, 0xBF, 0xBD)
			i++
			continue
		}
		out = append(out, s[i:i+n]...)
		i += n
	}
	return string(out)
}

// refRuneCount: number of code points of a valid UTF-8 string (each invalid byte counts one).
func refRuneCount(s string) int {
	c := 0
	for i := 0; i < len(s); {
		n := refRuneLen(s, i)
		if n == 0 {
			n = 1
		}
		i += n
		c++
	}
	return c
}

func refHex(b byte) int {
	switch {
	case '0' <= b && b <= '9':
		return int(b - '0')
	case 'a' <= b && b <= 'f':
		return int(b-'a') + 10
	case 'A' <= b && b <= 'F':
		return int(b-'A') + 10
	}
	return -1
}

func refAppendRune(out []byte, r int) []byte {
	switch {
	case r < 0x80:
		return append(out, byte(r))
	case r < 0x800:
		return append(out, byte(0xC0|r>>6), byte(0x80|r&0x3F))
	case r < 0x10000:
		return append(out, byte(0xE0|r>>12), byte(0x80|r>>6&0x3F), byte(0x80|r&0x3F))
	}
	return append(out, byte(0xF0|r>>18), byte(0x80|r>>12&0x3F), byte(0x80|r>>6&0x3F), byte(0x80|r&0x3F))
}

// refDecodeJSONString reads a JSON string literal at s[i] (which must be '"');
// returns the decoded bytes and the index after the closing quote, ok=false if the
// literal is not well-formed JSON or not valid UTF-8.
func refDecodeJSONString(s string, i int) (string, int, bool) {
	if i >= len(s) || s[i] != '"' {
		return "", i, false
	}
	i++
	var out []byte
	for i < len(s) {
		b := s[i]
		switch {
		case b == '"':
			return string(out), i + 1, true
		case b < 0x20:
			return "", i, false // raw control character
		case b == '\\':
			if i+1 >= len(s) {
				return "", i, false
			}
			e := s[i+1]
			i += 2
			switch e {
			case '"', '\\', '/':
				out = append(out, e)
			case 'b':
				out = append(out, '\b')
			case 'f':
				out = append(out, '\f')
			case 'n':
				out = append(out, '\n')
			case 'r':
				out = append(out, '\r')
			case 't':
				out = append(out, '\t')
			case 'u':
				if i+4 > len(s) {
					return "", i, false
				}
				r := 0
				for k := 0; k < 4; k++ {
					h := refHex(s[i+k])
					if h < 0 {
						return "", i, false
					}
					r = r*16 + h
				}
				i += 4
				if 0xD800 <= r && r < 0xDC00 {
					// high surrogate: must be followed by \uDC00..DFFF
					if i+6 > len(s) || s[i] != '\\' || s[i+1] != 'u' {
						return "", i, false
					}
					r2 := 0
					for k := 0; k < 4; k++ {
						h := refHex(s[i+2+k])
						if h < 0 {
							return "", i, false
						}
						r2 = r2*16 + h
					}
					if r2 < 0xDC00 || r2 > 0xDFFF {
						return "", i, false
					}
					i += 6
					r = 0x10000 + (r-0xD800)<<10 + (r2 - 0xDC00)
				} else if 0xDC00 <= r && r <= 0xDFFF {
					return "", i, false
				}
				out = refAppendRune(out, r)
			default:
				return "", i, false
			}
		default:
			n := refRuneLen(s, i)
			if n == 0 {
				return "", i, false // invalid UTF-8 in the output
			}
			out = append(out, s[i:i+n]...)
			i += n
		}
	}
	return "", i, false
}

// ---- reference JSON value reader ----

// refNum is how the reference reader returns a number: its literal text.
type refNum string

func refSkipWS(s string, i int) int {
	for i < len(s) && (s[i] == ' ' || s[i] == '\t' || s[i] == '\n' || s[i] == '\r') {
		i++
	}
	return i
}

func refDigits(s string, i int) int {
	for i < len(s) && '0' <= s[i] && s[i] <= '9' {
		i++
	}
	return i
}

// refParseNumber: RFC 8259 number grammar.
func refParseNumber(s string, i int) (int, bool) {
	j := i
	if j < len(s) && s[j] == '-' {
		j++
	}
	if j >= len(s) {
		return i, false
	}
	if s[j] == '0' {
		j++
	} else if '1' <= s[j] && s[j] <= '9' {
		j = refDigits(s, j)
	} else {
		return i, false
	}
	if j < len(s) && s[j] == '.' {
		k := refDigits(s, j+1)
		if k == j+1 {
			return i, false
		}
		j = k
	}
	if j < len(s) && (s[j] == 'e' || s[j] == 'E') {
		k := j + 1
		if k < len(s) && (s[k] == '+' || s[k] == '-') {
			k++
		}
		k2 := refDigits(s, k)
		if k2 == k {
			return i, false
		}
		j = k2
	}
	return j, true
}

// refParseValue reads one JSON value at s[i]: nil, bool, refNum, string, []any,
// map[string]any (duplicate keys rejected).
func refParseValue(s string, i int, depth int) (any, int, bool) {
	if depth > 64 {
		return nil, i, false
	}
	i = refSkipWS(s, i)
	if i >= len(s) {
		return nil, i, false
	}
	switch b := s[i]; {
	case b == 'n':
		if i+4 <= len(s) && s[i:i+4] == "null" {
			return nil, i + 4, true
		}
	case b == 't':
		if i+4 <= len(s) && s[i:i+4] == "true" {
			return true, i + 4, true
		}
	case b == 'f':
		if i+5 <= len(s) && s[i:i+5] == "false" {
			return false, i + 5, true
		}
	case b == '"':
		str, j, ok := refDecodeJSONString(s, i)
		return str, j, ok
	case b == '-' || '0' <= b && b <= '9':
		j, ok := refParseNumber(s, i)
		if !ok {
			return nil, i, false
		}
		return refNum(s[i:j]), j, true
	case b == '[':
		arr := []any{}
		i = refSkipWS(s, i+1)
		if i < len(s) && s[i] == ']' {
			return arr, i + 1, true
		}
		for {
			v, j, ok := refParseValue(s, i, depth+1)
			if !ok {
				return nil, j, false
			}
			arr = append(arr, v)
			i = refSkipWS(s, j)
			if i < len(s) && s[i] == ',' {
				i++
				continue
			}
			if i < len(s) && s[i] == ']' {
				return arr, i + 1, true
			}
			return nil, i, false
		}
	case b == '{':
		obj := map[string]any{}
		i = refSkipWS(s, i+1)
		if i < len(s) && s[i] == '}' {
			return obj, i + 1, true
		}
		for {
			i = refSkipWS(s, i)
			k, j, ok := refDecodeJSONString(s, i)
			if !ok {
				return nil, j, false
			}
			if _, dup := obj[k]; dup {
				return nil, j, false
			}
			i = refSkipWS(s, j)
			if i >= len(s) || s[i] != ':' {
				return nil, i, false
			}
			v, j2, ok := refParseValue(s, i+1, depth+1)
			if !ok {
				return nil, j2, false
			}
			obj[k] = v
			i = refSkipWS(s, j2)
			if i < len(s) && s[i] == ',' {
				i++
				continue
			}
			if i < len(s) && s[i] == '}' {
				return obj, i + 1, true
			}
			return nil, i, false
		}
	}
	return nil, i, false
}

// refParseJSON: the whole text is exactly one JSON value.
func refParseJSON(s string) (any, bool) {
	v, i, ok := refParseValue(s, 0, 0)
	if !ok {
		return nil, false
	}
	return v, refSkipWS(s, i) == len(s)
}
