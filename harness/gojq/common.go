package gojq

import (
	"encoding/json"
	"math/big"
	"strings"
)

// Shared harness helpers (package gojq). Plain Go: interpreted symbolically by
// gosym and compiled natively for replays.

// vmemo_* functions are pure set-up on concrete arguments; gosym runs them once per
// worker and deep-copies the result into each path.
func vmemo_parse(src string) *Query {
	q, err := Parse(src)
	if err != nil {
		return nil
	}
	return q
}

func vmemo_compile(src string) *Code {
	q, err := Parse(src)
	if err != nil {
		return nil
	}
	code, err := Compile(q)
	if err != nil {
		return nil
	}
	return code
}

// vars: comma-separated variable names ("$a,$b"), "" for none
func vmemo_compileVars(src, vars string) *Code {
	q, err := Parse(src)
	if err != nil {
		return nil
	}
	var names []string
	if vars != "" {
		names = strings.Split(vars, ",")
	}
	code, err := Compile(q, WithVariables(names))
	if err != nil {
		return nil
	}
	return code
}

// hRun collects up to max outputs; the list ends at (and includes) the first error.
func hRun(code *Code, input any, max int, vals ...any) []any {
	it := code.Run(input, vals...)
	var out []any
	for i := 0; i < max; i++ {
		v, ok := it.Next()
		if !ok {
			break
		}
		out = append(out, v)
		if _, isErr := v.(error); isErr {
			break
		}
	}
	return out
}

// hEqual: jq equality (Compare == 0) except that NaN equals NaN, so that two runs
// that both produce NaN agree.
func hEqual(a, b any) bool {
	switch a := a.(type) {
	case float64:
		if b, ok := b.(float64); ok {
			return a == b || a != a && b != b
		}
	case []any:
		b, ok := b.([]any)
		if !ok || len(a) != len(b) {
			return false
		}
		for i := range a {
			if !hEqual(a[i], b[i]) {
				return false
			}
		}
		return true
	case map[string]any:
		b, ok := b.(map[string]any)
		if !ok || len(a) != len(b) {
			return false
		}
		for k, x := range a {
			y, ok := b[k]
			if !ok || !hEqual(x, y) {
				return false
			}
		}
		return true
	}
	return Compare(a, b) == 0
}

// hErrValue: what `try ... catch .` would see for an error (message or value).
func hErrValue(e error) any {
	if ve, ok := e.(ValueError); ok {
		return ve.Value()
	}
	return nil
}

// hSameOutputs asserts two output sequences are the same: same length, same
// error-ness position by position, jq-equal values, and for errors the same Go type
// and (for value-carrying errors) the same payload.
func hSameOutputs(a, b []any, what string) {
	vassert(len(a) == len(b), what+": same number of outputs")
	if len(a) != len(b) {
		return
	}
	for k := range a {
		e1, isE1 := a[k].(error)
		e2, isE2 := b[k].(error)
		vassert(isE1 == isE2, what+": same error-ness")
		if isE1 && isE2 {
			// what a surrounding try/catch (or the caller) can observe: the value of a
			// value-carrying error, otherwise the message
			_, isV1 := e1.(ValueError)
			_, isV2 := e2.(ValueError)
			vassert(isV1 == isV2, what+": same kind of error")
			if isV1 && isV2 {
				vassert(hEqual(hErrValue(e1), hErrValue(e2)), what+": same error value")
			} else if !isV1 && !isV2 {
				vassert(e1.Error() == e2.Error(), what+": same error message")
			}
			continue
		}
		if !isE1 && !isE2 {
			vassert(hEqual(a[k], b[k]), what+": same value")
		}
	}
}

// hErrClass names the Go type of an error value.
func hErrClass(e error) string { return vtypename(e) }

// ---- value universes ----

const (
	hkNull = 1 << iota
	hkBool
	hkInt
	hkFloat
	hkBig
	hkStr
	hkArr
	hkObj
)

const hkScalars = hkNull | hkBool | hkInt | hkStr
const hkAll = hkNull | hkBool | hkInt | hkFloat | hkBig | hkStr | hkArr | hkObj

// hSmallInt: a symbolic int in (-r, r), r = vparam intrange (default 1000) — VM-level harnesses keep integer leaves
// small so that the arithmetic fast paths are the only feasible ones (the full range is
// C10's job).
func hSmallInt() int {
	x := nondetInt()
	r := vparam("intrange", 1000)
	vassume(-r < x)
	vassume(x < r)
	return x
}

// hGenValue builds an arbitrary JSON value: the shape (kinds, lengths, key sets) is chosen
// by nondetChoice (enumerated by the explorer), the leaves are symbolic.
// depth: nesting allowed below this node; width: max array length / number of keys.
func hGenValue(kinds, depth, width, strlen int) any {
	var ks []int
	for k := 1; k <= hkObj; k <<= 1 {
		if kinds&k != 0 && (depth > 0 || k < hkArr) {
			ks = append(ks, k)
		}
	}
	switch ks[nondetChoice(len(ks))] {
	case hkNull:
		return nil
	case hkBool:
		return nondetBool()
	case hkInt:
		return hSmallInt()
	case hkFloat:
		f := nondetFloat()
		vassume(f == f)
		vassume(-1e15 < f)
		vassume(f < 1e15)
		return f
	case hkBig:
		return nondetBig()
	case hkStr:
		return nondetString(nondetChoice(strlen + 1))
	case hkArr:
		n := nondetChoice(width + 1)
		a := make([]any, n)
		for i := range a {
			a[i] = hGenValue(kinds, depth-1, width, strlen)
		}
		return a
	case hkObj:
		m := map[string]any{}
		keys := []string{"a", "b", "c"}
		for i := 0; i < width && i < len(keys); i++ {
			if nondetBool() {
				m[keys[i]] = hGenValue(kinds, depth-1, width, strlen)
			}
		}
		return m
	}
	return nil
}

// hDeepCopy makes a structurally equal fresh copy (used for snapshots).
func hDeepCopy(v any) any {
	switch v := v.(type) {
	case []any:
		w := make([]any, len(v))
		for i, x := range v {
			w[i] = hDeepCopy(x)
		}
		return w
	case map[string]any:
		w := make(map[string]any, len(v))
		for k, x := range v {
			w[k] = hDeepCopy(x)
		}
		return w
	case *big.Int:
		return new(big.Int).Set(v)
	}
	return v
}

// hIdentical: structural identity including the numeric representation (int vs
// float64 vs *big.Int are different), NaN identical to NaN.
func hIdentical(a, b any) bool {
	switch a := a.(type) {
	case nil:
		return b == nil
	case bool:
		b, ok := b.(bool)
		return ok && a == b
	case int:
		b, ok := b.(int)
		return ok && a == b
	case float64:
		b, ok := b.(float64)
		return ok && (a == b || a != a && b != b)
	case *big.Int:
		b, ok := b.(*big.Int)
		return ok && a.Cmp(b) == 0
	case string:
		b, ok := b.(string)
		return ok && a == b
	case json.Number:
		b, ok := b.(json.Number)
		return ok && a == b
	case []any:
		b, ok := b.([]any)
		if !ok || len(a) != len(b) {
			return false
		}
		for i := range a {
			if !hIdentical(a[i], b[i]) {
				return false
			}
		}
		return true
	case map[string]any:
		b, ok := b.(map[string]any)
		if !ok || len(a) != len(b) {
			return false
		}
		for k, x := range a {
			y, ok := b[k]
			if !ok || !hIdentical(x, y) {
				return false
			}
		}
		return true
	}
	return false
}
