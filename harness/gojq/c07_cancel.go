package gojq

import (
	"context"
	"time"
)

// C07 — cancellation is prompt, prefix-consistent and terminal. The cancellation
// point is a symbolic integer: an ordinary context.Context whose Done() counts polls
// and returns a closed channel from poll number k on.

type c07ctx struct {
	k, n         int
	closed, open chan struct{}
}

func (c *c07ctx) Deadline() (time.Time, bool) { return time.Time{}, false }
func (c *c07ctx) Done() <-chan struct{} {
	c.n++
	if c.n > c.k {
		return c.closed
	}
	return c.open
}
func (c *c07ctx) Err() error {
	if c.n > c.k {
		return context.Canceled
	}
	return nil
}
func (c *c07ctx) Value(any) any { return nil }

var c07Progs = []string{
	`1, 2`, `range(3)`, `!def f: f; f`, `!repeat(empty)`, `!last(repeat(1))`, `![repeat(1)]`, `!reduce repeat(1) as $x (0; . + 1)`, `!until(false; .)`, `!first(repeat(empty))`, `!.[0] | while(true; .) | empty`, `first(1, 2)`, `label $l | 1, break $l, 2`, `[limit(2; repeat(1))]`, `repeat(1)`, `range(1; infinite)`,
	`0 | until(. > 3; . + 1)`, `[recurse(if . < 2 then . + 1 else empty end)]`, `limit(3; repeat(2))`, `isempty(empty)`, `first(range(10))`, `path(..)`,
	`reduce range(5) as $i (0; . + $i)`, `foreach range(4) as $i (0; . + $i)`, `.[] |= . + 1`, `[.[] | select(. > 0)]`, `def f: if . < 4 then . + 1 | f else . end; 0 | f`,
	`def f: ., (. + 1 | f); 0 | f`, `error`, `1, error, 2`, `try error catch .`, `(1, 2) as $x | $x, error`, `.[] as $x | $x`, `[.[] | tostring]`, `limit(0; 1)`, `empty`,
	`label $a | label $b | 1, break $a, 2`, `first(empty)`, `[first(range(3))]`, `last(range(3))`, `nth(1; range(5))`, `any(range(5); . > 2)`, `all(range(3); . < 5)`,
	`[.[] | if . > 1 then error else . end]?`, `.[] | (1 / .)?`, `try (1, error("x"), 3) catch .`, `[range(2)] | map(. + 1) | add`, `to_entries`, `[paths]`, `sort`, `while(. != null and length > 0; .[1:])`,
	`path([1] | .[])`, `path({a: 1} | .[])`, `[path([1] | .[])]`, `try path([1] | .[]) catch .`, `path(1 | .[])`, `path([[1]] | .[0][])`, `path(. as $x | [1] | .[])`, `(1, 2) | path([3] | .[])`, `first(path([1] | .[]))`,
	`.[] |= empty`, `path(..)`, `[paths]`, `path(.a[]?)`, `path(.[0] | .[]?)`, `path(getpath(["a"]) | .[])?`, `[.[] | path(.)]`, `path(.[] | select(. > 2))`,
	`tostream`, `[splits("a")]?`, `input`, `$x`, `[$x, .]`, `getpath(["a"])?`, `ltrimstr(1)`, `{} | .a.b.c = 1`, `[1, [2]] | flatten`, `halt_error?`, `"\(1, 2) \(3, 4)"`,
}

// programs marked ! run forever without producing output: there is no uncancelled
// reference run for them, only promptness is asserted
func c07Silent(k int) bool { return c07Progs[k][0] == '!' }

func c07Code(k int) *Code {
	src := c07Progs[k]
	if src[0] == '!' {
		src = src[1:]
	}
	return vmemo_compileVars(src, "$x")
}

// H_C07_cancel: for each program and every cancellation poll k in [0, N].
func H_C07_cancel() {
	p := nondetChoice(len(c07Progs))
	vlabel("prog", c07Progs[p])
	code := c07Code(p)
	if code == nil {
		vreach("compile-error")
		return
	}
	input := []any{hSmallInt(), 2, 3}
	// the uncancelled run: outputs (up to a bound) and whether it ended
	ref := code.Run(input, 7)
	var want []any
	refEnded := false
	maxOut := vparam("outputs", 6)
	silent := c07Silent(p)
	for i := 0; i < maxOut && !silent; i++ {
		v, ok := ref.Next()
		if !ok {
			refEnded = true
			break
		}
		want = append(want, v)
	}
	if refEnded {
		// (4) false is forever, also after an error value was emitted
		for i := 0; i < 3; i++ {
			_, ok := ref.Next()
			vassert(!ok, "uncancelled: Next keeps returning false after the end")
		}
		vreach("ref-ended")
	}
	k := nondetInt()
	vassume(0 <= k)
	vassume(k <= vparam("polls", 40))
	c := &c07ctx{k: k, closed: make(chan struct{}), open: make(chan struct{})}
	close(c.closed)
	it := code.RunWithContext(c, input, 7)
	cancelled, itEnded := false, false
	for i := 0; i < maxOut+1; i++ {
		pollsBefore := c.n
		v, ok := it.Next()
		if !ok {
			// ended before poll k was reached: the uncancelled run must have ended here too
			vassert(!silent, "a program that loops forever is interrupted by the cancellation")
			vassert(refEnded && i == len(want), "cancelled run ends where the uncancelled run ends")
			vreach("ended-before-cancel")
			itEnded = true
			break
		}
		if e, isErr := v.(error); isErr && e == context.Canceled {
			// (1) prompt: returned at the very poll that saw the cancellation
			vassert(c.n == c.k+1, "cancellation is reported at the poll that observes it")
			vassert(pollsBefore <= c.k, "no Next call started after the cancellation without reporting it")
			cancelled = true
			vreach("cancelled")
			break
		}
		// (2) prefix consistency
		if silent {
			vassert(false, "a silent program produced an output")
			break
		}
		if i >= len(want) && !refEnded {
			break // the output bound of the uncancelled reference run is reached: nothing left to compare with
		}
		vassert(i < len(want), "no extra output before the cancellation")
		if i < len(want) {
			_, e1 := v.(error)
			_, e2 := want[i].(error)
			vassert(e1 == e2, "same error-ness as the uncancelled run")
			if !e1 && !e2 {
				vassert(hEqual(v, want[i]), "outputs before the cancellation are the prefix of the uncancelled run")
			}
		}
	}
	// (3) afterwards the iterator is exhausted, and stays so
	if cancelled {
		for i := 0; i < 3; i++ {
			_, ok := it.Next()
			vassert(!ok, "after the cancellation error the iterator is exhausted")
		}
	} else {
		// the run ended (or the output bound was reached) before poll k; if it ended, it
		// stays ended even though the context gets cancelled later
		if itEnded {
			c.k = 0 // cancel now
			for i := 0; i < 3; i++ {
				_, ok := it.Next()
				vassert(!ok, "an iterator that has ended stays ended when the context is cancelled later")
			}
			vreach("cancel-after-end")
		}
	}
	vreach("end")
}

// H_C07_errors: after an error value was emitted the iterator can be advanced to
// exhaustion without panicking; argument-count mismatches are one-shot iterators.
func H_C07_errors() {
	p := nondetChoice(len(c07Progs))
	vlabel("prog", c07Progs[p])
	code := c07Code(p)
	if code == nil || c07Silent(p) {
		return
	}
	var it Iter
	switch nondetChoice(3) {
	case 0:
		it = code.Run([]any{hSmallInt(), 0, "x"}, 7)
	case 1:
		it = code.Run(nil) // too few variable values
		vlabel("args", "too-few")
	default:
		it = code.Run(nil, 1, 2) // too many
		vlabel("args", "too-many")
	}
	ended := false
	for i := 0; i < 12; i++ {
		_, ok := it.Next()
		if ended {
			vassert(!ok, "Next keeps returning false after the end")
		}
		if !ok {
			ended = true
		}
	}
	vreach("end")
}

// H_C07_terminal: "false forever" over histories in which other runs of the same code
// start, advance and finish while the exhausted (or cancelled) iterator is still held:
// the old iterator keeps answering false and the other runs yield what they yield alone.
func H_C07_terminal() {
	p := nondetChoice(len(c07Progs))
	vlabel("prog", c07Progs[p])
	code := c07Code(p)
	if code == nil || c07Silent(p) {
		return
	}
	in1 := []any{1, 2, 3} // the schedule is the symbolic part here; the values are fixed
	in2 := []any{5, 0}
	alone := hRun(code, hDeepCopy(in2), 8, 9)
	var it1 Iter
	how := nondetChoice(2)
	if how == 0 {
		it1 = code.Run(in1, 7)
	} else {
		k := nondetInt()
		vassume(0 <= k)
		vassume(k <= vparam("tpolls", 12))
		c := &c07ctx{k: k, closed: make(chan struct{}), open: make(chan struct{})}
		close(c.closed)
		it1 = code.RunWithContext(c, in1, 7)
	}
	ended := false
	for i := 0; i < 10; i++ {
		if _, ok := it1.Next(); !ok {
			ended = true
			break
		}
	}
	if !ended {
		return
	}
	// a symbolic schedule of: extra Next on the old iterator / start a new run / advance a new run
	var its []Iter
	var outs [][]any
	var done []bool
	for step := 0; step < vparam("steps", 4); step++ {
		switch nondetChoice(3) {
		case 0:
			v, ok := it1.Next()
			vassert(!ok && v == nil, "after Next has returned false it returns false forever, whatever other runs do")
		case 1:
			if len(its) < 2 {
				its = append(its, code.Run(hDeepCopy(in2), 9))
				outs = append(outs, nil)
				done = append(done, false)
			}
		default:
			if len(its) > 0 {
				j := nondetChoice(len(its))
				if !done[j] && len(outs[j]) < 8 {
					v, ok := its[j].Next()
					if !ok {
						done[j] = true
					} else {
						outs[j] = append(outs[j], v)
						if _, isErr := v.(error); isErr {
							done[j] = true // compared up to the first error, as hRun does
						}
					}
				}
			}
		}
	}
	// finish the other runs: each yields exactly what the run yields alone
	for j := range its {
		for !done[j] && len(outs[j]) < 8 {
			v, ok := its[j].Next()
			if !ok {
				done[j] = true
				break
			}
			outs[j] = append(outs[j], v)
			if _, isErr := v.(error); isErr {
				done[j] = true
			}
		}
		hSameOutputs(outs[j], alone, "a run started while an exhausted iterator is still held")
		v, ok := it1.Next()
		vassert(!ok && v == nil, "the exhausted iterator still answers false after other runs finished")
	}
	vreach("end")
}

// H_C07_between: the cancellation happens BETWEEN polls — after the j-th output, while the
// caller holds the iterator, or inside a native function in the middle of a run. The very
// next thing Next returns is the context's error (the next step of the interpreter sees
// it): no further value is emitted first.
func H_C07_between() {
	c := &c07ctx{k: 1 << 30, closed: make(chan struct{}), open: make(chan struct{})}
	close(c.closed)
	cancelNow := func(v any, _ []any) any { c.k = c.n; return v }
	if nondetBool() {
		// cancelled from inside the run
		progs := []string{`cancel_now | (1, 2, 3)`, `[range(5)] | cancel_now | .[]`, `1, (2 | cancel_now), 3`, `cancel_now | repeat(1)`, `(1, 2) | cancel_now | (., .)`, `reduce range(3) as $i (0; cancel_now) | (1, 2)`, `first(cancel_now, 2), 3`, `try (cancel_now | error("x")) catch 7`, `[cancel_now, 1] | .[]`, `label $l | cancel_now | 1, break $l`}
		p := nondetChoice(len(progs))
		vlabel("prog", progs[p])
		q := vmemo_parse(progs[p])
		code, err := Compile(q, WithFunction("cancel_now", 0, 0, cancelNow))
		if q == nil || err != nil {
			return
		}
		it := code.RunWithContext(c, []any{hSmallInt(), 2})
		seenCancel := false
		for i := 0; i < 8; i++ {
			before := c.k != 1<<30 // already cancelled when this Next starts
			v, ok := it.Next()
			if !ok {
				break
			}
			if e, isErr := v.(error); isErr && e == context.Canceled {
				seenCancel = true
				break
			}
			vassert(!before, "no value is emitted by a Next call that starts after the cancellation")
		}
		if c.k != 1<<30 {
			vassert(seenCancel, "a run cancelled from inside reports the context's error")
		}
		vreach("inside")
		return
	}
	// cancelled by the caller between two Next calls
	p := nondetChoice(len(c07Progs))
	vlabel("prog", c07Progs[p])
	code := c07Code(p)
	if code == nil || c07Silent(p) {
		return
	}
	it := code.RunWithContext(c, []any{hSmallInt(), 2, 3}, 7)
	j := nondetChoice(5)
	for i := 0; i < j; i++ {
		if _, ok := it.Next(); !ok {
			return // ended before the cancellation
		}
	}
	c.k = c.n // cancel now
	v, ok := it.Next()
	if ok {
		e, isErr := v.(error)
		vassert(isErr && e == context.Canceled, "the first Next after the cancellation returns the context's error, not another value")
	}
	// (an iterator that had nothing left may answer false instead)
	vreach("between")
}
