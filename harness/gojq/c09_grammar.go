package gojq

import "strings"

// C09 — operator precedence/associativity against a precedence-climbing reference,
// adjacent-token spacing in the printer, whitespace/comment invariance of the lexer.

type c09op struct {
	text  string
	op    Operator
	prec  int
	assoc int // 0 left, 1 right, 2 non-associative
}

var c09Ops = []c09op{
	{"|", OpPipe, 1, 1}, {",", OpComma, 2, 0}, {"//", OpAlt, 3, 1},
	{"=", OpAssign, 4, 2}, {"|=", OpModify, 4, 2}, {"+=", OpUpdateAdd, 4, 2}, {"-=", OpUpdateSub, 4, 2}, {"*=", OpUpdateMul, 4, 2}, {"/=", OpUpdateDiv, 4, 2}, {"%=", OpUpdateMod, 4, 2}, {"//=", OpUpdateAlt, 4, 2},
	{"or", OpOr, 5, 0}, {"and", OpAnd, 6, 0},
	{"==", OpEq, 7, 2}, {"!=", OpNe, 7, 2}, {"<", OpLt, 7, 2}, {"<=", OpLe, 7, 2}, {">", OpGt, 7, 2}, {">=", OpGe, 7, 2},
	{"+", OpAdd, 8, 0}, {"-", OpSub, 8, 0}, {"*", OpMul, 9, 0}, {"/", OpDiv, 9, 0}, {"%", OpMod, 9, 0},
}

var c09Atoms = []string{".", "1", ".a", "f", "$x", "-1", "\"s\"", "[.]"}

// reference: precedence climbing over the token list atom (op atom)*; ok=false when a
// non-associative level is chained.
func c09RefParse(atoms []*Query, ops []c09op, minPrec int, pos *int) (*Query, bool) {
	left := atoms[*pos]
	for *pos < len(ops) {
		o := ops[*pos]
		if o.prec < minPrec {
			break
		}
		*pos++
		next := o.prec + 1
		if o.assoc == 1 {
			next = o.prec
		}
		right, ok := c09RefParse(atoms, ops, next, pos)
		if !ok {
			return nil, false
		}
		left = &Query{Left: left, Op: o.op, Right: right}
		if o.assoc == 2 && *pos < len(ops) && ops[*pos].prec == o.prec {
			return nil, false // a non-associative operator cannot be chained
		}
	}
	return left, true
}

func vmemo_c09Atom(src string) *Query {
	q, err := Parse(src)
	if err != nil {
		return nil
	}
	return q
}

// H_C09_prec: `a op1 b op2 c [op3 d]` through the real yacc tables vs the reference.
func H_C09_prec() {
	n := vparam("ops", 2)
	var ops []c09op
	var atoms []*Query
	a0 := c09Atoms[nondetChoice(len(c09Atoms))]
	src := a0
	atoms = append(atoms, vmemo_c09Atom(a0))
	for i := 0; i < n; i++ {
		o := c09Ops[nondetChoice(len(c09Ops))]
		a := c09Atoms[nondetChoice(vparam("atoms", 3))]
		ops = append(ops, o)
		atoms = append(atoms, vmemo_c09Atom(a))
		src += " " + o.text + " " + a
	}
	vlabel("src", src)
	got, err := Parse(src)
	pos := 0
	want, ok := c09RefParse(atoms, ops, 0, &pos)
	vassert((err == nil) == ok, "accepted exactly when no non-associative level is chained")
	if err == nil && ok {
		vassert(eqQuery(got, want), "operators bind as in the documented precedence table")
		vreach("bound")
	} else {
		vreach("rejected")
	}
}

var c09Terms = []string{
	".", "..", ".a", ".\"a\"", ".[0]", ".[1:2]", ".[]", "1", "1.5", "\"s\"", "\"a\\(1)b\"", "@base64", "@json \"x\\(.)\"", "null", "true", "[1]", "[]", "{a:1}", "{}", "(1)", "-1", "f", "f(1;2)",
	"$x", "$__loc__", "if 1 then 2 end", "try 1", "reduce 1 as $x (2;3)", "foreach 1 as $x (2;3;4)", "break $l", ".a.b", ".\"a\".\"b\"", ".and", ".a?", "..?", "{(1):2}", "{\"a\\(1)\":2}", "{$x}", "{a}", "{@base64:1}", "\"\\\"\\(.)\\\"\"", "\"say \\\"\\(.)\\\" twice\"", "@json \"\\\"\\(1)\\\"\"", ".\"a\\\"\\(1)\"", "{\"k\\\"\\(1)\": 2}", "\"\\\\\\(1)\"", "\"\\(\"\\\"\")\"", "\"a\\\\\"", "\"\\t\\(1)\\n\"",
}

var c09Suffixes = []string{"", ".a", ".\"a\"", ".[0]", "[0]", "[1:2]", ".[1:2]", "[]", ".[]", "?", " .a", " .[0]", " . [0]", ".\"a\\(1)\"", "[.a]", "[:1]", "[1:]", ".and", " ?", ".[\"a\"]", ". a"}

// H_C09_forms: every (term, suffix, suffix) combination, with and without spaces: an
// accepted source prints to a source that parses to a deeply equal AST.
func H_C09_forms() {
	t := c09Terms[nondetChoice(len(c09Terms))]
	s1 := c09Suffixes[nondetChoice(len(c09Suffixes))]
	s2 := c09Suffixes[nondetChoice(len(c09Suffixes))]
	src := t + s1 + s2
	switch nondetChoice(4) {
	case 1:
		src = "1 + " + src + " | ."
	case 2:
		src = "[" + src + "]"
	case 3:
		src = src + " as [$a, {b: $c}] | ."
	}
	vlabel("src", src)
	q, err := Parse(src)
	if err != nil {
		vreach("rejected")
		return
	}
	s := q.String()
	q2, err2 := Parse(s)
	vassert(err2 == nil, "the printed form of an accepted query is accepted")
	if err2 != nil {
		return
	}
	vassert(eqQuery(q, q2), "the printed form parses to a deeply equal AST")
	vassert(q2.String() == s, "printing is a fixed point")
	vreach("accepted")
}

// H_C09_ws: white space and comments before a token are irrelevant: lexing sep+b yields
// the same token type and text as lexing b, for a symbolic buffer b.
func H_C09_ws() {
	n := vparam("n", 3)
	b := nondetString(n)
	seps := []string{" ", "\t", "\n", "\r\n", "#c\n", "  ", "# x \\\n y\n", "#\r", "#?\n", "#?#\n", "#\\?\n"}
	sep := seps[nondetChoice(len(seps))]
	vlabel("sep", sep)
	if strings.Contains(sep, "?") {
		// a comment with an arbitrary byte in it (anything but a line terminator)
		c := nondetByte()
		vassume(c != '\n')
		vassume(c != '\r')
		vassume(c != '\\')
		sep = strings.Replace(sep, "?", string([]byte{c}), 1)
	}
	l1, l2 := newLexer(b), newLexer(sep+b)
	var v1, v2 yySymType
	for k := 0; k <= n+1; k++ {
		t1, t2 := l1.Lex(&v1), l2.Lex(&v2)
		vassert(t1 == t2, "same token type after leading white space / comment")
		if t1 != t2 {
			return
		}
		vassert(v1.token == v2.token && v1.operator == v2.operator, "same token value after leading white space / comment")
		if t1 == eof {
			vreach("eof")
			return
		}
		vassert(l2.offset == l1.offset+len(sep), "offsets differ by the length of the separator")
		if t1 == tokInvalid || t1 == tokInvalidEscapeSequence || t1 == tokUnterminatedString {
			vreach("invalid")
			return
		}
	}
	vreach("end")
}
