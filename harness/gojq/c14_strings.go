package gojq

import "sync"

// C14 — string positions are code points; regex builtins agree with match.

func c14RunesOf(s string) []string {
	var rs []string
	for i := 0; i < len(s); {
		n := refRuneLen(s, i)
		if n == 0 {
			rs = append(rs, "�")
			i++
			continue
		}
		rs = append(rs, s[i:i+n])
		i += n
	}
	return rs
}

func c14Join(rs []string) string {
	out := ""
	for _, r := range rs {
		out += r
	}
	return out
}

// H_C14_pos: length, .[i], .[i:j], index/rindex/indices on symbolic byte strings against
// a reference that works on the decoded code-point array.
func H_C14_pos() {
	s := nondetString(nondetChoice(vparam("n", 3) + 1))
	rs := c14RunesOf(s)
	n := len(rs)
	valid := refValidUTF8(s)
	switch nondetChoice(4) {
	case 0:
		vassert(funcLength(s).(int) == n, "length counts code points")
		vassert(len(funcExplode(s).([]any)) == n, "explode yields one number per code point")
	case 1:
		i := int(int8(nondetByte())) / 16
		r := funcIndex2(nil, s, i)
		j := i
		if j < 0 {
			j += n
		}
		if 0 <= j && j < n {
			vassert(r.(string) == rs[j], ".[i] on a string is the i-th code point")
		} else {
			vassert(r == nil, ".[i] out of range is null")
		}
	case 2:
		var st, en any
		si, ei := int(int8(nondetByte()))/16, int(int8(nondetByte()))/16
		if nondetBool() {
			st = si
		}
		if nondetBool() {
			en = ei
		}
		r, ok := funcSlice(nil, s, en, st).(string)
		vassert(ok, ".[i:j] on a string yields a string")
		lo, hi := 0, n
		if st != nil {
			lo = si
			if lo < 0 {
				lo += n
			}
			if lo < 0 {
				lo = 0
			}
			if lo > n {
				lo = n
			}
		}
		if en != nil {
			hi = ei
			if hi < 0 {
				hi += n
			}
			if hi < lo {
				hi = lo
			}
			if hi > n {
				hi = n
			}
		}
		if ok && valid {
			vassert(r == c14Join(rs[lo:hi]), ".[i:j] on a string slices by code points")
			vreach("sliced")
		}
	default:
		t := nondetString(1 + nondetChoice(2))
		if !valid || !refValidUTF8(t) {
			return
		}
		ts := c14RunesOf(t)
		var want []int
		for i := 0; i+len(ts) <= n; i++ {
			if c14Join(rs[i:i+len(ts)]) == t {
				want = append(want, i)
			}
		}
		got := funcIndices(s, t).([]any)
		vassert(len(got) == len(want), "indices finds every occurrence")
		if len(got) == len(want) {
			for i := range got {
				vassert(got[i].(int) == want[i], "indices reports code-point positions")
			}
		}
		fi, li := funcIndex(s, t), funcRindex(s, t)
		if len(want) == 0 {
			vassert(fi == nil && li == nil, "index/rindex of an absent substring is null")
		} else {
			vassert(fi.(int) == want[0] && li.(int) == want[len(want)-1], "index/rindex are the first/last occurrence in code points")
		}
		vreach("searched")
	}
	vreach("end")
}

var c14Subjects = []string{"", "a", "ab", "aé", "é😀", "a\nb", "aaa", "áb́c", "x😀y", "日本語", "ABab", "a b  c", "éé", "\n", "😀"}
var c14Regexes = []string{"a", "", "a*", "(?<x>a)|b", "[a-z]", "^", "$", "b?", "(a)(b)?", "é", ".", "\\n", "(?<n>.)", "x*y*", "(?<w>\\w+)", "\\s+", "(?<e>)", "[^a]", "😀|a", "(é)*"}
var c14Flags = []string{"null", `"g"`, `"i"`, `"gi"`, `"m"`, `"n"`, `"gx"`}

var c14Laws = []string{
	// slicing the subject by a reported (offset, length) returns the reported string
	`. as $s | [match(RE; FLAGS)] | all(. as $m | $s[$m.offset:$m.offset+$m.length] == $m.string)`,
	`. as $s | [match(RE; FLAGS) | .captures[] | select(.offset >= 0)] | all(. as $m | $s[$m.offset:$m.offset+$m.length] == $m.string)`,
	// test holds iff a match exists
	`test(RE; FLAGS) == ([match(RE; FLAGS)] | length > 0)`,
	// the pieces of splits interleaved with the global matches rebuild the subject
	`. as $s | [match(RE; FLAGS + "g") | .string] as $ms | [splits(RE; FLAGS)] as $ps | (($ps | length) == ($ms | length) + 1) and ([range($ps | length)] | map($ps[.] + ($ms[.] // "")) | add) == $s`,
	// replacing every match by itself returns the subject
	`gsub("(?<whole__>" + RE + ")"; .whole__; FLAGS) == .`,
	`sub("(?<whole__>" + RE + ")"; .whole__; FLAGS) == .`,
	// scan agrees with global match
	`[scan(RE; FLAGS)] == [match(RE; FLAGS + "g") | if .captures == [] then .string else [.captures[].string] end]`,
	// named captures surface in capture
	`[capture(RE; FLAGS)] == [match(RE; FLAGS) | [.captures[] | select(.name != null) | {key: .name, value: .string}] | from_entries]`,
	// split/2 is the array of splits
	`split(RE; FLAGS) == [splits(RE; FLAGS)]`,
	// all of them terminate, also on empty matches
	`[gsub(RE; "-"; FLAGS)] | length == 1`,
}

func vmemo_c14Law(law, re, flags int) *Code {
	src := c14Laws[law]
	reLit := jsonMarshal(c14Regexes[re])
	fl := c14Flags[flags]
	out := ""
	for i := 0; i < len(src); i++ {
		if i+2 <= len(src) && src[i:i+2] == "RE" && (i+2 == len(src) || src[i+2] < 'A' || src[i+2] > 'Z') && (i == 0 || src[i-1] < 'A' || src[i-1] > 'Z') {
			out += reLit
			i++
		} else if i+5 <= len(src) && src[i:i+5] == "FLAGS" {
			out += "(" + fl + ")"
			i += 4
		} else {
			out += string(src[i])
		}
	}
	q, err := Parse(out)
	if err != nil {
		return nil
	}
	code, err := Compile(q)
	if err != nil {
		return nil
	}
	return code
}

// H_C14_laws: the regex builtins of builtin.jq on the real VM, the regexp engine run
// natively (trusted): subjects x regexes x flag sets x laws.
func H_C14_laws() {
	law := nondetChoice(len(c14Laws))
	re := nondetChoice(len(c14Regexes))
	fl := nondetChoice(vparam("flags", len(c14Flags)))
	sub := nondetChoice(len(c14Subjects))
	vlabel("law", c14Laws[law])
	vlabel("re", c14Regexes[re])
	vlabel("flags", c14Flags[fl])
	vlabel("subject", c14Subjects[sub])
	code := vmemo_c14Law(law, re, fl)
	if code == nil {
		vassert(false, "law compiles")
		return
	}
	out := hRun(code, c14Subjects[sub], 3)
	vassert(len(out) == 1, "one output")
	if len(out) != 1 {
		return
	}
	if _, isErr := out[0].(error); isErr {
		// unsupported flags / FLAGS + "g" on null: every law of this pairing fails alike
		bad := c14Flags[fl] == `"n"` || c14Flags[fl] == `"gx"`
		vassert(bad || c14Flags[fl] == "null" && (law == 3 || law == 6), "only an unsupported flag (or null + \"g\") is an error")
		vreach("error")
		return
	}
	vassert(out[0] == true, "the law holds")
	vreach("holds")
}

// ---- contract mode: the match list is arbitrary within regexp's documented contract ----

var c14Contract bool
var c14Matches [][]int

// hRegexpFindAll: consulted by gosym's model of (*regexp.Regexp).FindAllStringSubmatchIndex.
func hRegexpFindAll(s string, n int) ([][]int, bool) {
	if !c14Contract {
		return nil, false
	}
	if n >= 0 && len(c14Matches) > n {
		return c14Matches[:n], true
	}
	return c14Matches, true
}

// H_C14_contract: funcMatch's code-point arithmetic for EVERY match list the regexp engine
// may return on a subject of symbolic bytes (valid or not): whole match and one capture
// group (participating or not) per match, one or two matches, indices at the positions
// where the engine can stop (rune starts; every invalid byte is one position wide).
func H_C14_contract() {
	if vnative() {
		return // the contract model exists only in the symbolic run
	}
	s := nondetString(nondetChoice(vparam("n", 3) + 1))
	var stops []int
	for i := 0; i < len(s); {
		stops = append(stops, i)
		n := refRuneLen(s, i)
		if n == 0 {
			n = 1
		}
		i += n
	}
	stops = append(stops, len(s))
	mk := func(from int) (m []int, endIdx int) {
		a := from + nondetChoice(len(stops)-from)
		b := a + nondetChoice(len(stops)-a)
		m = []int{stops[a], stops[b], -1, -1}
		if nondetBool() {
			c := a + nondetChoice(b-a+1)
			d := c + nondetChoice(b-c+1)
			m[2], m[3] = stops[c], stops[d]
		}
		return m, b
	}
	m0, e0 := mk(0)
	c14Matches = [][]int{m0}
	global := nondetBool()
	if global && e0 < len(stops)-1 && nondetBool() {
		from := e0
		if m0[0] == m0[1] {
			from = e0 + 1 // an empty match is not followed by a match at the same position
		}
		if from < len(stops) {
			m1, _ := mk(from)
			c14Matches = append(c14Matches, m1)
		}
	}
	c14Contract = true
	var cache sync.Map
	var flags any
	if global {
		flags = "g"
	}
	r := funcMatch(s, "(?P<g>a)", flags, false, &cache)
	c14Contract = false
	res, ok := r.([]any)
	vassert(ok && len(res) == len(c14Matches), "match yields one object per match of the engine")
	if !ok || len(res) != len(c14Matches) {
		return
	}
	for i, m := range c14Matches {
		o, ok := res[i].(map[string]any)
		vassert(ok, "a match is an object")
		if !ok {
			return
		}
		vassert(o["offset"] == refRuneCount(s[:m[0]]), "offset is the number of code points before the match")
		vassert(o["length"] == refRuneCount(s[m[0]:m[1]]), "length is the number of code points of the match")
		vassert(o["string"] == s[m[0]:m[1]], "string is the matched text")
		cs, ok := o["captures"].([]any)
		vassert(ok && len(cs) == 1, "one capture per group")
		if !ok || len(cs) != 1 {
			return
		}
		c := cs[0].(map[string]any)
		vassert(c["name"] == "g", "the capture carries the group name")
		if m[2] < 0 {
			vassert(c["offset"] == -1 && c["length"] == 0 && c["string"] == nil, "a group that did not participate has offset -1, length 0 and a null string")
			vreach("absent-group")
		} else {
			vassert(c["offset"] == refRuneCount(s[:m[2]]), "capture offset in code points")
			vassert(c["length"] == refRuneCount(s[m[2]:m[3]]), "capture length in code points")
			vassert(c["string"] == s[m[2]:m[3]], "capture string is the captured text")
			vreach("group")
		}
	}
	vreach("end")
}
