package gojq

// C02 — update operators equal their defining reductions under value semantics.
// The in-place machinery (`_modify`, `_assign`, allocator-tracked setpath/delpaths)
// is compared, on the same VM, with the defining reduction written with the plain
// getpath/setpath/delpaths builtins. Path indices $i $j $k are symbolic.

var c02Paths = []string{
	`.a`, `.a.b`, `.[$i]`, `.[$i:$j]`, `.[$i:]`, `.[:$j]`, `.[$i:$j][$k]`, `.[$i][$k]`, `.[]`, `..`, `.a?`, `.[$i]?`,
	`first(.[$i], .[$j])`, `.[] | select(. != null)`, `if . then .[$i] else .a end?`, `.a // .[$j]?`, `getpath([$i])?`, `getpath(["a","b"])?`, `empty`,
	`.a[$i]`, `.[$i].a`, `.a[$i:]`, `.[$i:][$k:]`, `.[][$k]?`, `.[]?.a?`, `.a, .b`, `.[$i], .[$j]`, `.[$i:$j], .[$k]`, `.[$k], .[$i:$j]`,
	`.[$i:$j], .[$i:$j]`, `.[$i:], .[:$j]`, `.[$i], .[$i:$j][$k]`, `.[$i:$j][$k], .[$i]`, `., .[$i]`, `.[$i], .`, `.a, .a.b`, `.a.b, .a`, `.a.b, ., .a.b`,
	`.[$i][$j], .[$i]`, `.[$i], .[$i][$j]`, `.[0], .[1], .[0]`, `.[$i:$j][], .[$k]`, `.. | select(type == "number")`, `.[] | .[$k]?`,
	`recurse(.[$i]?; . != null)`, `limit(2; .[])`, `.[$i, $j]`, `.[$i:$j, $k]?`, `.["a", "b"]?`, `(.a, .b) | .[$i]?`, `.a | ., .b?`,
}

var c02Bodies = []string{
	`7`, `.`, `[.]`, `[., .]`, `{a: .}`, `. + 1`, `empty`, `(., .)`, `(8, 9)`, `null`, `{a: .a?, c: .}`, `[.[]?]`, `if type == "array" then .[1:] else [.] end`,
	`if . == null then empty else . end`, `length?`, `tojson`, `error`, `.[0]?`, `del(.[0]?)`, `. as $x | [$x, $x]`,
}

var c02Ops = []string{"+", "-", "*", "/", "%", "//"}

// the defining reductions, written with the plain builtins
func c02ModifyRef(p, f string) string {
	return `. as $in | reduce path(` + p + `) as $q ([$in, []]; . as [$v, $d] | [first($v | getpath($q) | ` + f + `)] as $r | if ($r | length) > 0 then [($v | setpath($q; $r[0])), $d] else [$v, $d + [$q]] end) | . as [$v, $d] | $v | delpaths($d)`
}

func c02AssignRef(p, x string) string {
	return `(` + x + `) as $x | reduce path(` + p + `) as $q (.; setpath($q; $x))`
}

func c02OpRef(p, op, x string) string {
	return `(` + x + `) as $x | ` + c02ModifyRef(p, `. `+op+` $x`)
}

// iterated single deletions, last path first, against the plain delpaths on one path
func c02DelRef(p string) string {
	return `reduce ([path(` + p + `)] | unique | reverse | .[]) as $q (.; delpaths([$q]))`
}

func c02Input() any {
	leaf := func() any { return hGenValue(hkNull|hkInt, 0, 0, 0) }
	switch nondetChoice(9) {
	case 0:
		return nil
	case 1:
		return []any{hSmallInt(), hSmallInt()}
	case 2:
		return []any{leaf(), []any{leaf(), leaf()}, leaf()}
	case 3:
		return map[string]any{"a": map[string]any{"b": leaf()}}
	case 4:
		return map[string]any{"a": []any{leaf(), leaf()}, "b": leaf()}
	case 5:
		// array with spare capacity (append-built) and an aliased sub-array
		inner := []any{leaf()}
		arr := make([]any, 0, 8)
		arr = append(arr, inner, inner, leaf())
		return arr
	case 6:
		return []any{[]any{[]any{leaf()}}, map[string]any{"a": leaf()}}
	case 7:
		return hSmallInt()
	default:
		return []any{}
	}
}

func c02Index() int {
	x := nondetInt()
	r := vparam("idxrange", 3)
	vassume(-r <= x)
	vassume(x <= r)
	return x
}

func c02Run(src string, input any, i, j, k int) []any {
	code := vmemo_compileVars(src, "$i,$j,$k")
	if code == nil {
		return []any{"<compile error>"}
	}
	return hRun(code, input, 6, i, j, k)
}

// hAcyclic: bounded walk; false if the value nests deeper than 40 levels (a cycle).
func hAcyclic(v any, depth int) bool {
	if depth > 40 {
		return false
	}
	switch v := v.(type) {
	case []any:
		for _, x := range v {
			if !hAcyclic(x, depth+1) {
				return false
			}
		}
	case map[string]any:
		for _, x := range v {
			if !hAcyclic(x, depth+1) {
				return false
			}
		}
	}
	return true
}

func c02Compare(kind, a, b string, input any, i, j, k int) {
	vlabel("prog", a)
	snap := hDeepCopy(input)
	got := c02Run(a, input, i, j, k)
	for _, g := range got {
		if _, isErr := g.(error); !isErr {
			vassert(hAcyclic(g, 0), kind+": result is acyclic")
			if !hAcyclic(g, 0) {
				return
			}
		}
	}
	vassert(hIdentical(input, snap), kind+": input unchanged by the update")
	want := c02Run(b, hDeepCopy(snap), i, j, k)
	vassert(len(got) == len(want), kind+": same number of outputs as the defining reduction")
	if len(got) != len(want) {
		return
	}
	for n := range got {
		_, e1 := got[n].(error)
		_, e2 := want[n].(error)
		vassert(e1 == e2, kind+": fails exactly when the defining reduction fails")
		if !e1 && !e2 {
			vassert(hEqual(got[n], want[n]), kind+": equals its defining reduction")
		}
	}
	vreach(kind)
}

func H_C02_modify() {
	lo, hi := vparam("from", 0), vparam("to", len(c02Paths))
	p := c02Paths[lo+nondetChoice(hi-lo)]
	f := c02Bodies[nondetChoice(vparam("bodies", len(c02Bodies)))]
	input := c02Input()
	i, j, k := c02Index(), c02Index(), c02Index()
	c02Compare("modify", `(`+p+`) |= (`+f+`)`, c02ModifyRef(p, f), input, i, j, k)
}

func H_C02_assign() {
	lo, hi := vparam("from", 0), vparam("to", len(c02Paths))
	p := c02Paths[lo+nondetChoice(hi-lo)]
	xs := []string{`7`, `.`, `(8, 9)`, `empty`, `[.]`, `.a?`, `$i`}
	x := xs[nondetChoice(len(xs))]
	input := c02Input()
	i, j, k := c02Index(), c02Index(), c02Index()
	c02Compare("assign", `(`+p+`) = (`+x+`)`, c02AssignRef(p, x), input, i, j, k)
}

func H_C02_opassign() {
	lo, hi := vparam("from", 0), vparam("to", len(c02Paths))
	p := c02Paths[lo+nondetChoice(hi-lo)]
	op := c02Ops[nondetChoice(len(c02Ops))]
	xs := []string{`1`, `(1, 2)`, `$i`, `.[$k]?`, `empty`, `null`, `[3]`}
	x := xs[nondetChoice(len(xs))]
	input := c02Input()
	i, j, k := c02Index(), c02Index(), c02Index()
	c02Compare("opassign", `(`+p+`) `+op+`= (`+x+`)`, c02OpRef(p, op, x), input, i, j, k)
}

func H_C02_del() {
	lo, hi := vparam("from", 0), vparam("to", len(c02Paths))
	p := c02Paths[lo+nondetChoice(hi-lo)]
	input := c02Input()
	i, j, k := c02Index(), c02Index(), c02Index()
	c02Compare("del", `del(`+p+`)`, c02DelRef(p), input, i, j, k)
}
