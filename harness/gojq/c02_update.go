package gojq

// C02 — update operators equal their defining reductions under value semantics.
// The in-place machinery (`_modify`, `_assign`, allocator-tracked setpath/delpaths)
// is compared, on the same VM, with the defining reduction written with the plain
// getpath/setpath/delpaths builtins. Path indices $i $j $k are symbolic.

var c02Paths = []string{
	`.a`, `.a.b`, `.[$i]`, `.[$i:$j]`, `.[$i:]`, `.[:$j]`, `.[$i:$j][$k]`, `.[$i][$k]`, `.[]`, `..`, `.a?`, `.[$i]?`,
	`first(.[$i], .[$j])`, `.[] | select(. != null)`, `if . then .[$i] else .a end?`, `.a // .[$j]?`, `getpath([$i])?`, `getpath(["a","b"])?`, `empty`,
	`.a[$i]`, `.[$i].a`, `.a[$i:]`, `.[$i:][$k:]`, `.[][$k]?`, `.[]?.a?`, `.a, .b`, `.[$i], .[$j]`, `.[$i:$j], .[$k]`, `.[$k], .[$i:$j]`,
	`.[$i:$j], .[$i:$j]`, `.[$i:], .[:$j]`, `.[$i], .[$i:$j][$k]`, `.[$i:$j][$k], .[$i]`, `., .[$i]`, `.[$i], .`, `.a, .a.b`, `.a.b, .a`, `.a.b, ., .a.b`,
	`.[$i], ., .[$k]`, `.[0], ., .[3]`, `., .[$k]`, `.[$i][$j], .[$i]`, `.[$i], .[$i][$j]`, `.[0], .[1], .[0]`, `.[$i:$j][], .[$k]`, `.. | select(type == "number")`, `.[] | .[$k]?`,
	`recurse(.[$i]?; . != null)`, `limit(2; .[])`, `.[$i, $j]`, `.[$i:$j, $k]?`, `.["a", "b"]?`, `(.a, .b) | .[$i]?`, `.a | ., .b?`,
}

var c02Bodies = []string{
	`7`, `.`, `[.]`, `empty`, `if type == "array" then .[:1] else 9 end`, `{a: .}`, `[., .]`, `. + 1`, `(., .)`, `(8, 9)`, `null`, `{a: .a?, c: .}`, `[.[]?]`, `if type == "array" then .[1:] else [.] end`,
	`if . == null then empty else . end`, `length?`, `tojson`, `error`, `.[0]?`, `del(.[0]?)`, `. as $x | [$x, $x]`,
}

var c02Ops = []string{"+", "-", "//", "*", "/", "%"}

// the defining reductions, written with the plain builtins
func c02ModifyRef(p, f string) string {
	return `. as $in | reduce path(` + p + `) as $q ([$in, []]; . as [$v, $d] | [first($v | getpath($q) | ` + f + `)] as $r | if ($r | length) > 0 then [($v | setpath($q; $r[0])), $d] else [$v, $d + [$q]] end) | . as [$v, $d] | $v | delpaths($d)`
}

func c02AssignRef(p, x string) string {
	return `(` + x + `) as $x | reduce path(` + p + `) as $q (.; setpath($q; $x))`
}

func c02OpRef(p, op, x string) string {
	return `(` + x + `) as $x | ` + c02ModifyRef(p, `. `+op+` $x`)
}

// ---- reference delpaths: every path is interpreted against the original value ----

// refIdx: position of index i in a window of n elements, or -1 (jq: negative counts
// from the end, out of range deletes nothing).
func refIdx(i, n int) int {
	if i < 0 {
		i += n
	}
	if i < 0 || i >= n {
		return -1
	}
	return i
}

func refClamp(i, lo, hi int) int {
	if i < 0 {
		i += hi
	}
	if i < lo {
		return lo
	}
	if i > hi {
		return hi
	}
	return i
}

type refDelState struct{ err bool }

// refDelArr records, for the window [lo,hi) of arr, which positions are deleted
// (marks) and which deeper paths apply to which position (child), in path order.
func (st *refDelState) refDelArr(lo, hi int, path []any, marks []bool, child map[int][][]any) {
	if len(path) == 0 {
		for p := lo; p < hi; p++ {
			marks[p] = true
		}
		return
	}
	n := hi - lo
	switch e := path[0].(type) {
	case int:
		if k := refIdx(e, n); k >= 0 && !marks[lo+k] {
			if len(path) == 1 {
				marks[lo+k] = true
			} else {
				child[lo+k] = append(child[lo+k], path[1:])
			}
		}
	case map[string]any:
		s, ok1 := e["start"]
		t, ok2 := e["end"]
		if !ok1 || !ok2 {
			st.err = true
			return
		}
		start, end := 0, n
		if s != nil {
			i, ok := s.(int)
			if !ok {
				st.err = true
				return
			}
			start = refClamp(i, 0, n)
		}
		if t != nil {
			i, ok := t.(int)
			if !ok {
				st.err = true
				return
			}
			end = refClamp(i, start, n)
		}
		if start < end {
			st.refDelArr(lo+start, lo+end, path[1:], marks, child)
		}
	default:
		st.err = true
	}
}

// refDel returns v without the given paths; deleted reports that v itself is deleted.
func (st *refDelState) refDel(v any, paths [][]any) (res any, deleted bool) {
	for _, p := range paths {
		if len(p) == 0 {
			return nil, true
		}
	}
	if len(paths) == 0 {
		return v, false
	}
	switch v := v.(type) {
	case nil:
		for _, p := range paths {
			switch e := p[0].(type) {
			case string, int:
			case map[string]any:
				_, ok1 := e["start"]
				_, ok2 := e["end"]
				if !ok1 || !ok2 {
					st.err = true
				}
			default:
				st.err = true
			}
		}
		return nil, false
	case map[string]any:
		gone := map[string]bool{}
		child := map[string][][]any{}
		for _, p := range paths {
			k, ok := p[0].(string)
			if !ok {
				st.err = true
				return nil, false
			}
			if _, have := v[k]; !have || gone[k] {
				continue
			}
			if len(p) == 1 {
				gone[k] = true
			} else {
				child[k] = append(child[k], p[1:])
			}
		}
		w := map[string]any{}
		for k, x := range v {
			if gone[k] {
				continue
			}
			if y, del := st.refDel(x, child[k]); !del {
				w[k] = y
			}
		}
		return w, false
	case []any:
		marks := make([]bool, len(v))
		child := map[int][][]any{}
		for _, p := range paths {
			st.refDelArr(0, len(v), p, marks, child)
			if st.err {
				return nil, false
			}
		}
		w := []any{}
		for i, x := range v {
			if marks[i] {
				continue
			}
			if y, del := st.refDel(x, child[i]); !del {
				w = append(w, y)
			}
		}
		return w, false
	default:
		st.err = true
		return nil, false
	}
}

func c02Input() any {
	leaf := func() any { return hGenValue(hkNull|hkInt, 0, 0, 0) }
	switch nondetChoice(9) {
	case 0:
		return nil
	case 1:
		return []any{hSmallInt(), hSmallInt()}
	case 2:
		return []any{leaf(), []any{leaf(), leaf()}, leaf()}
	case 3:
		return map[string]any{"a": map[string]any{"b": leaf()}}
	case 4:
		return map[string]any{"a": []any{leaf(), leaf()}, "b": leaf()}
	case 5:
		// array with spare capacity (append-built) and an aliased sub-array
		inner := []any{leaf()}
		arr := make([]any, 0, 8)
		arr = append(arr, inner, inner, leaf())
		return arr
	case 6:
		return []any{[]any{[]any{leaf()}}, map[string]any{"a": leaf()}}
	case 7:
		return hSmallInt()
	default:
		return []any{}
	}
}

func c02Index() int {
	x := nondetInt()
	r := vparam("idxrange", 3)
	vassume(-r <= x)
	vassume(x <= r)
	return x
}

func c02Run(src string, input any, i, j, k int) []any {
	code := vmemo_compileVars(src, "$i,$j,$k")
	if code == nil {
		return []any{"<compile error>"}
	}
	return hRun(code, input, 6, i, j, k)
}

// hAcyclic: bounded walk; false if the value nests deeper than 40 levels (a cycle).
func hAcyclic(v any, depth int) bool {
	if depth > 40 {
		return false
	}
	switch v := v.(type) {
	case []any:
		for _, x := range v {
			if !hAcyclic(x, depth+1) {
				return false
			}
		}
	case map[string]any:
		for _, x := range v {
			if !hAcyclic(x, depth+1) {
				return false
			}
		}
	}
	return true
}

func c02Compare(kind, a, b string, input any, i, j, k int) {
	if kind != "modify" {
		vlabel("prog", a)
	}
	snap := hDeepCopy(input)
	got := c02Run(a, input, i, j, k)
	for _, g := range got {
		if _, isErr := g.(error); !isErr {
			vassert(hAcyclic(g, 0), kind+": result is acyclic")
			if !hAcyclic(g, 0) {
				return
			}
		}
	}
	vassert(hIdentical(input, snap), kind+": input unchanged by the update")
	want := c02Run(b, hDeepCopy(snap), i, j, k)
	vassert(len(got) == len(want), kind+": same number of outputs as the defining reduction")
	if len(got) != len(want) {
		return
	}
	for n := range got {
		_, e1 := got[n].(error)
		_, e2 := want[n].(error)
		vassert(e1 == e2, kind+": fails exactly when the defining reduction fails")
		if !e1 && !e2 {
			vassert(hEqual(got[n], want[n]), kind+": equals its defining reduction")
		}
	}
	vreach(kind)
}

func H_C02_modify() {
	lo, hi := vparam("from", 0), vparam("to", len(c02Paths))
	p := c02Paths[lo+nondetChoice(hi-lo)]
	f := c02Bodies[nondetChoice(vparam("bodies", len(c02Bodies)))]
	input := c02Input()
	i, j, k := c02Index(), c02Index(), c02Index()
	vlabel("prog", `(`+p+`) |= (`+f+`)`)
	// recorded finding (known_findings.txt): a body that builds a container around its
	// input keeps a reference into an array/object the update later mutates in place
	switch f {
	case `[.]`, `[., .]`, `{a: .}`, `{a: .a?, c: .}`, `. as $x | [$x, $x]`:
		vlabel("body", "embeds-its-input")
	default:
		vlabel("body", "plain")
	}
	c02Compare("modify", `(`+p+`) |= (`+f+`)`, c02ModifyRef(p, f), input, i, j, k)
}

func H_C02_assign() {
	lo, hi := vparam("from", 0), vparam("to", len(c02Paths))
	p := c02Paths[lo+nondetChoice(hi-lo)]
	xs := []string{`7`, `.`, `(8, 9)`, `empty`, `[.]`, `.a?`, `$i`}
	x := xs[nondetChoice(len(xs))]
	input := c02Input()
	i, j, k := c02Index(), c02Index(), c02Index()
	c02Compare("assign", `(`+p+`) = (`+x+`)`, c02AssignRef(p, x), input, i, j, k)
}

func H_C02_opassign() {
	lo, hi := vparam("from", 0), vparam("to", len(c02Paths))
	p := c02Paths[lo+nondetChoice(hi-lo)]
	op := c02Ops[nondetChoice(vparam("ops", len(c02Ops)))]
	xs := []string{`1`, `(1, 2)`, `$i`, `empty`, `.[$k]?`, `null`, `[3]`}
	x := xs[nondetChoice(vparam("xs", len(xs)))]
	input := c02Input()
	i, j, k := c02Index(), c02Index(), c02Index()
	c02Compare("opassign", `(`+p+`) `+op+`= (`+x+`)`, c02OpRef(p, op, x), input, i, j, k)
}

// del(P) against the Go reference applied to the paths the VM yields for path(P).
func H_C02_del() {
	lo, hi := vparam("from", 0), vparam("to", len(c02Paths))
	p := c02Paths[lo+nondetChoice(hi-lo)]
	input := c02Input()
	i, j, k := c02Index(), c02Index(), c02Index()
	src := `del(` + p + `)`
	vlabel("prog", src)
	snap := hDeepCopy(input)
	got := c02Run(src, input, i, j, k)
	vassert(hIdentical(input, snap), "del: input unchanged")
	ps := c02Run(`[path(`+p+`)]`, hDeepCopy(snap), i, j, k)
	vassert(len(got) == 1 && len(ps) == 1, "del: one output")
	if len(got) != 1 || len(ps) != 1 {
		return
	}
	_, e1 := got[0].(error)
	plist, okp := ps[0].([]any)
	if !okp {
		vassert(e1, "del: fails when path(P) fails")
		vreach("del-patherr")
		return
	}
	var paths [][]any
	for _, q := range plist {
		paths = append(paths, q.([]any))
	}
	st := &refDelState{}
	want, deleted := st.refDel(hDeepCopy(snap), paths)
	if deleted {
		want = nil
	}
	vassert(e1 == st.err, "del: fails exactly when the reference fails")
	if !e1 && !st.err {
		vassert(hIdentical(got[0], want), "del: equals deleting every path against the original value")
	}
	vreach("del")
}

// H_C02_invalid: navigating from a value that was computed rather than reached from the
// input raises an invalid-path error, never a silent update elsewhere: `.a | K | ACCESS`
// under path/assignment/deletion, for a constructed container or a scalar K.
func H_C02_invalid() {
	ks := []string{`null`, `1`, `$i`, `"s"`, `{b: 1}`, `[1]`, `. + 0`, `[.[]?]`, `tostring`, `not`, `.`, `(.b? // .)`, `first(., 1)`, `if . then . else . end`, `select(true)`, `(., .)`, `{b: .b?}`}
	accs := []string{`.b`, `.[0]`, `.[0:1]`, `.[]`, `.b.c`}
	forms := []string{`[path(.a | %K | %A)]`, `(.a | %K | %A) = 5`, `(.a | %K | %A) |= 6`, `del(.a | %K | %A)`}
	k, a, f := ks[nondetChoice(len(ks))], accs[nondetChoice(len(accs))], forms[nondetChoice(len(forms))]
	src := ""
	for i := 0; i < len(f); i++ {
		if f[i] == '%' && i+1 < len(f) {
			if f[i+1] == 'K' {
				src += k
			} else {
				src += a
			}
			i++
		} else {
			src += string(f[i])
		}
	}
	vlabel("prog", src)
	var av any
	switch nondetChoice(5) {
	case 0:
		av = nil
	case 1:
		av = hSmallInt()
	case 2:
		av = map[string]any{"b": map[string]any{"c": hSmallInt()}}
	case 3:
		av = []any{hSmallInt(), 2}
	default:
		av = nondetBool()
	}
	input := map[string]any{"a": av, "c": nil}
	x := hSmallInt()
	got := c02Run(src, input, x, 0, 0)
	// what the computed value K is, on .a (run separately)
	kv := c02Run(`.a | `+k, hDeepCopy(input), x, 0, 0)
	if len(kv) != 1 {
		vreach("k-generates")
		return // K generates or fails: outside this harness
	}
	if _, isErr := kv[0].(error); isErr {
		return
	}
	// K passes its input through untouched (identity-like forms) exactly when the result IS
	// the value at the location: for containers identity of the Go object, for scalars equality
	passthrough := false
	switch k {
	case `.`, `(.b? // .)`, `first(., 1)`, `if . then . else . end`, `select(true)`:
		passthrough = true
	case `(., .)`:
		return
	}
	sameScalar := false
	switch kv[0].(type) {
	case []any, map[string]any:
	default:
		sameScalar = hIdentical(kv[0], av) || Compare(kv[0], av) == 0 && TypeOf(kv[0]) == TypeOf(av)
	}
	vassert(len(got) >= 1, "one output or an error")
	if len(got) < 1 {
		return
	}
	e, isErr := got[len(got)-1].(error)
	if passthrough || sameScalar {
		vreach("valid")
		return // navigation is legitimate; its result is checked by the other C02 harnesses
	}
	vassert(isErr, "navigating from a computed value is an error, never a silent update")
	_ = e // an ill-typed access fails with its own type error before the path check
	vreach("invalid")
}

// H_C02_valid: sub-expressions evaluated as values inside a path expression (binding
// sources, destructuring patterns, conditions, arguments) do not navigate: for a context
// C that binds or tests something and passes its input on, `path(C | A)`, `(C | A) = 5`,
// `(C | A) |= 6` and `del(C | A)` behave exactly like the same form over A alone.
func H_C02_valid() {
	ctxs := []string{
		`.a as $x`, `.a as [$x]`, `.a as {b: $y}`, `.a as {$b}`, `.a as [$p, $q] ?// $p`, `(.a | length?) as $n`, `.c as [$x, [$y]]`, `. as {a: $v, c: [$w]}`, `.a as [$x] ?// {b: $x} ?// $x`,
		`if .a then . else . end`, `select(.c != 0)`, `(.a, .c) as $m`, `.[$i]? as [$x]`, `.c[1:] as [$t]`, `reduce .c[]? as [$x] (0; . + 1) as $r`, `first(.a, .c) as {$b}`, `label $l | .a as [$x]`,
	}
	accs := []string{`.a`, `.c[0]`, `.a.b`, `.c[1:]`, `.c[]`, `.a[0]?`, `.c[$i]`}
	forms := []string{`[path(%)]`, `(%) = 5`, `(%) |= 6`, `del(%)`}
	c, a, f := ctxs[nondetChoice(len(ctxs))], accs[nondetChoice(len(accs))], forms[nondetChoice(len(forms))]
	fill := func(tmpl, body string) string {
		out := ""
		for i := 0; i < len(tmpl); i++ {
			if tmpl[i] == '%' {
				out += body
			} else {
				out += string(tmpl[i])
			}
		}
		return out
	}
	with, without := fill(f, c+` | `+a), fill(f, a)
	vlabel("prog", with)
	var av any
	switch nondetChoice(4) {
	case 0:
		av = map[string]any{"b": hSmallInt()}
	case 1:
		av = []any{hSmallInt(), 2}
	case 2:
		av = nil
	default:
		av = hSmallInt()
	}
	input := map[string]any{"a": av, "c": []any{hSmallInt(), []any{3}}}
	x := hSmallInt()
	// the context on its own: must pass its input on exactly once, else outside this harness
	probe := c02Run(c+` | 1`, hDeepCopy(input), x, 0, 0)
	if len(probe) != 1 || probe[0] != 1 {
		vreach("context-fails-or-generates")
		return
	}
	got := c02Run(with, hDeepCopy(input), x, 0, 0)
	want := c02Run(without, hDeepCopy(input), x, 0, 0)
	// values and failure positions (the message text of `A = x` with a constant path differs
	// by the setpath wrapper: C04's recorded finding, not a matter of path semantics)
	vassert(len(got) == len(want), "a value context inside a path expression: same number of outputs")
	if len(got) == len(want) {
		for n := range got {
			_, e1 := got[n].(error)
			_, e2 := want[n].(error)
			vassert(e1 == e2, "a value context inside a path expression: fails exactly when the plain form fails")
			if !e1 && !e2 {
				vassert(hIdentical(got[n], want[n]), "a value context inside a path expression: same result as the plain form")
			}
		}
	}
	vreach("end")
}

// H_C02_slicefrac: fractional slice bounds mean the same thing when writing as when
// reading (start rounds down, end rounds up): `.[s:e] |= F`, `.[s:e] = X` and
// `del(.[s:e])` equal the splice written with the rounded integer bounds.
func H_C02_slicefrac() {
	n := nondetChoice(5)
	arr := make([]any, n)
	for k := range arr {
		arr[k] = hSmallInt()
	}
	// the bounds are enumerated: int-to-float conversion of a symbolic bound puts every
	// comparison into the FP theory (measured: unknowns after minutes)
	i := nondetChoice(n + 1)
	j := i + nondetChoice(n-i+1)
	fr := []string{``, ` + 0.2`, ` + 0.5`, ` - 0.5`}
	fs, fe := fr[nondetChoice(len(fr))], fr[nondetChoice(len(fr))]
	s, e := `($i`+fs+`)`, `($j`+fe+`)`
	bounds := `(` + s + ` | floor | if . < 0 then 0 else . end) as $S | (` + e + ` | ceil | if . < $S then $S else . end) as $E | `
	var with, plain string
	switch nondetChoice(4) {
	case 0:
		with, plain = `.[`+s+`:`+e+`] |= map(. + 1) + [9]`, bounds+`.[:$S] + (.[$S:$E] | map(. + 1) + [9]) + .[$E:]`
	case 1:
		with, plain = `.[`+s+`:`+e+`] = ["x"]`, bounds+`.[:$S] + ["x"] + .[$E:]`
	case 2:
		with, plain = `del(.[`+s+`:`+e+`])`, bounds+`.[:$S] + .[$E:]`
	default:
		with, plain = `.[`+s+`:`+e+`]`, bounds+`.[$S:$E]`
	}
	vlabel("prog", with)
	got := c02Run(with, hDeepCopy(arr), i, j, 0)
	want := c02Run(plain, hDeepCopy(arr), i, j, 0)
	vassert(len(got) == 1 && len(want) == 1, "one output")
	if len(got) == 1 && len(want) == 1 {
		_, e1 := got[0].(error)
		_, e2 := want[0].(error)
		vassert(!e1 && !e2, "slicing an array with numeric bounds does not fail")
		if !e1 && !e2 {
			vassert(hEqual(got[0], want[0]), "a fractional slice bound selects the same elements for writing as for reading")
		}
	}
	vreach("end")
}
