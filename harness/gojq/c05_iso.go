package gojq

import (
	"errors"
	"math/big"
	"sync"
)

// C05 / C06 — isolation and concurrent use, decided by the interpreter's
// heap-provenance monitor: everything that exists before the run (the *Code, the
// input, the variable values, package-level data) and every value already emitted is
// frozen; a write whose destination is frozen is reported.
//   mode 1 (C05): only writes that can change the stored value (solver-decided)
//   mode 2 (C06): any write at all (non-interference => race freedom for every schedule)

var c05Progs = []string{
	`.`, `.a`, `.[0]`, `.a.b + 1`, `.a |= {c: 1}`, `.a.b = 5`, `del(.a.b)`, `del(.a.q)`, `del(.[0])`, `del(.[5])`, `del(.a, .b)`, `del(.[0], .[1])`,
	`delpaths([["a","zz"]])`, `delpaths([["a"]])`, `delpaths([[0]])`, `delpaths([])`, `{"x":{"y":1}} | del(.x.q)`, `{"x":{"y":1}} | del(.x.y)`, `[[1],[2]] | del(.[0][0])`, `[[1],[2]] | del(.[5])`,
	`to_entries`, `with_entries(.)`, `[paths]`, `[.[]?]`, `map(.)?`, `map_values(.)?`, `map_values(empty)?`, `.[]? |= .`, `.[]? |= empty`, `.. |= .`,
	`.a += 1`, `.[0] += 1`, `.a //= 3`, `.[1:] = [9]`, `.[:1] |= map(. )`, `.[0:1] |= .`, `.a[0] = 1`, `.a = .`, `.[0] = .`, `. as $x | .a = $x`,
	`add?`, `[.[]?] | add`, `. + .`, `.a + .a`, `[., .]`, `{a: ., b: .}`, `[.[]?, .[]?]`, `. as [$a] ?// $a | [$a, $a]`,
	`sort?`, `sort_by(.)?`, `group_by(.)?`, `unique?`, `unique_by(.)?`, `min?`, `max_by(.)?`, `reverse?`, `flatten?`, `transpose?`, `keys?`, `to_entries? | from_entries?`,
	`.[1:]?`, `.[:1]?`, `.[1:][0]?`, `.[1:] |= reverse`, `first(.[]?)`, `[limit(2; .[]?)]`, `[.[]? | select(. != null)]`, `walk(.)`, `walk(if type == "number" then . + 1 else . end)`,
	`tostream`, `[tostream] | fromstream(.[])`, `getpath(["a"])?`, `setpath(["a"]; 1)?`, `setpath([0]; 1)?`, `setpath([]; 1)`, `setpath(["a","b"]; .)?`, `pick(.a)?`, `pick(.[0])?`,
	`reduce .[]? as $x (.; .)`, `reduce .[]? as $x ([]; . + [$x])`, `reduce (1,2) as $x (.; setpath(["k"]; $x)?)`, `foreach .[]? as $x (.; .; .)`, `[foreach (1,2) as $x (.; .a = $x; .)]?`,
	`[limit(3; repeat(.[0] |= . + 1))]?`, `[limit(2; repeat(.a += 1))]?`, `.[0] as $x | .[0] = 9 | [., $x]`, `(.a, .b) |= . + 1`, `(.[0], .[1]) |= [.]`, `(.a, .a) |= {c: .}`,
	`{a: [1,2]} | .a[0] = 7`, `[1,[2]] | .[1][0] = 7`, `[3,1,2] | sort`, `{a:1} + .?`, `[1] + .?`, `. * {a: {c: 1}}?`, `{a:{b:1}} * .?`, `[1,2] - .?`, `. - [1]?`,
	`[range(3)] as $a | ($a + [10], $a + [20])`, `[range(3)] as $a | [$a + [10], $a + [20]]`, `[.[]?] as $a | ($a + [1], $a + [2])`, `[.[]?] | (. + [1]), (. + [2])`, `. as $a | [$a[:1] + [10], $a[:1] + [20], $a]?`, `[$v[]] as $a | [$a + ["x"], $a + ["y"], $a]`,
	`[.[]?] | [. + [1], . + [2]] | .[0]`, `[limit(3; repeat(1))] as $a | [$a + [2], $a + [3]]`, `(. // []) as $a | [$a + [[1]], $a + [[2]]]?`, `[.[]?] as $a | $a + [1] | [., $a + [2]]`,
	`$v`, `$v | .[0] = 9`, `$v | del(.[0])`, `[$v, $v] | .[0][0] = 1`, `. as $x | $v | .[1:] = $x?`, `$v + .?`, `[$v[]?] | sort`, `$v | map(. )`, `$v | .[0] += 1`, `[., $v] | del(.[][0]?)`,
	`[range(3)] as $x | [([$x, ["a"]] | add), ([$x, ["b"]] | add)]`, `[.[]?] as $x | ([$x, [1]] | add), ([$x, [2]] | add)`, `[$v[]] as $x | [[$x, ["p"]], [$x, ["q"]]] | map(add)`, `[[.[]?], [1]] | add, add`,
	// patterns and flags taken from the input: the regexp cache is keyed by the pair
	`. as {s: $s, re: $re, flags: $f} ?// $s | try ($s | test($re; $f)) catch "e"`, `. as {s: $s, re: $re, flags: $f} ?// $s | [try ($s | match($re; $f) | .string) catch "e"]`, `[.s?, .re?, .flags?] as [$s, $re, $f] | try ($s | [splits($re; $f)]) catch "e"`,
	`(.s? // "xag") | [(try (match("a"; "g") | .string) catch "e"), (try (match("ag") | .string) catch "e")]`, `try ("Hi" | [test("h"; "i"), test("hi")]) catch "e"`,
	// integers beyond 64 bits: literals in the code, values in the input, in-place arithmetic
	`10000000000000000000 * .?`, `. * 10000000000000000000?`, `10000000000000000000 + .?`, `10000000000000000000 - .?`, `10000000000000000000 % 7`, `10000000000000000000 / 10`,
	`-10000000000000000000 | abs`, `[-10000000000000000000 | abs, .]`, `-100000000000000000000 | [abs, length, -., .]`, `10000000000000000000 | -(.)`, `[10000000000000000000 | ., . * 3, .]`,
	`.[0]? * 3`, `[.[]? | abs?]`, `[.[]? | -(.)?]`, `[.[]? | . % 7?]`, `[.[]? | . + 1?]`, `[.[]? | . - 1?]`, `[.[]? | length?]`, `.[0]? as $x | [$x * 3, $x]`, `[.[]? | tostring]`, `[.[]? | floor?]`,
	`[.[]?] | sort`, `[.[]?] | add`, `[.[]?] | min, max`, `[.[]?] | unique`, `.[0]? *= 2`, `.[0]? |= abs?`, `.[]? |= -(.)?`, `[.[]? | . * .?]`, `[.[]? | [., .] | .[0] * 2?]`,
	// nested updates: an update whose body updates and deletes
	`.[]? |= (if . == 1 then empty elif type == "array" then (.[0] |= empty) else . end)`, `.[]? |= (.[0]? |= empty)?`, `.[]? |= (.[]? |= empty)?`, `map_values(map_values(empty)?)?`,
	`.[]? |= (if type == "array" then (.[0] |= empty) else empty end)`, `(.a, .b)? |= (.b? |= empty)?`, `.[]? |= (.[1:]? |= empty)?`, `[.[]? |= empty, (.[]? |= (.[]? |= empty)?)]`, `del(.[]?[0]?)`, `del(.[]?) | del(.[]?)`,
	`ltrimstr("a")`, `ascii_downcase?`, `explode? | implode`, `split("a")? | join("a")`, `tojson | fromjson`, `tostring`, `@json`, `@base64? | @base64d`, `[splits("a")?]`, `sub("a"; "b")?`, `test("a")?`, `[match("a"; "g")?]`,
	`[limit(2; range(5))]`, `[range(0; 3)]`, `path(..)`, `[path(.a[0]?)]`, `paths`, `paths(type == "number")`, `any`, `all`, `isempty(.[]?)`, `env`, `$ENV`, `builtins | length`, `halt_error?`, `error?`, `try error catch .`,
}

func c05Input() any { return c05InputK(nondetChoice(14)) }

func c05InputK(shape int) any {
	// leaves: symbolic small ints; one shape mixes null and a symbolic string
	leaf := func() any {
		if vparam("mixedleaves", 0) == 1 {
			return hGenValue(hkNull|hkInt|hkStr, 0, 0, 1)
		}
		return hSmallInt()
	}
	switch shape {
	case 0:
		return map[string]any{"a": map[string]any{"b": hSmallInt()}, "c": []any{1, 2}}
	case 1:
		return []any{hSmallInt(), hSmallInt(), hSmallInt()}
	case 2:
		shared := []any{leaf()}
		arr := make([]any, 0, 6)
		arr = append(arr, shared, shared, leaf())
		return arr
	case 3:
		sm := map[string]any{"b": leaf()}
		return map[string]any{"a": sm, "b": sm}
	case 4:
		return []any{[]any{nil, leaf()}, map[string]any{"a": nondetString(1)}}
	case 5:
		return leaf()
	case 6:
		return map[string]any{"a": []any{leaf(), leaf()}, "b": leaf()}
	case 8:
		// integers beyond 64 bits, shared between two positions
		neg, _ := new(big.Int).SetString("-100000000000000000000", 10)
		pos, _ := new(big.Int).SetString("10000000000000000000", 10)
		return []any{neg, pos, neg}
	case 9:
		return []any{leaf(), 1, []any{leaf(), leaf()}, []any{[]any{1}}}
	case 10:
		return map[string]any{"s": "Xag", "re": "x", "flags": "i"}
	case 11:
		return map[string]any{"s": "Xag", "re": "xi", "flags": nil}
	case 12:
		return map[string]any{"s": "Xag", "re": "a", "flags": "g"}
	case 13:
		return map[string]any{"s": "Xag", "re": "ag", "flags": nil}
	default:
		return []any{}
	}
}

// hFull: a deep copy in which every slice is extended to its capacity: the hidden part
// of a backing array is memory that a careless append writes into.
func hFull(v any) any {
	switch v := v.(type) {
	case []any:
		w := v[:cap(v)]
		out := make([]any, len(w))
		for i := range w {
			out[i] = hFull(w[i])
		}
		return out
	case map[string]any:
		out := make(map[string]any, len(v))
		for k, x := range v {
			out[k] = hFull(x)
		}
		return out
	case *big.Int:
		return new(big.Int).Set(v)
	}
	return v
}

// hCodeConsts: the containers and big integers embedded in the compiled code
func hCodeConsts(c *Code) []any {
	out := []any{}
	for _, cd := range c.codes {
		switch v := cd.v.(type) {
		case []any, map[string]any, *big.Int:
			out = append(out, v)
		}
	}
	return out
}

// two variables: the values reach Run as ONE slice owned by the caller (code.Run(in, vals...))
func c05Code(k int) *Code { return vmemo_compileVars(c05Progs[k], "$v,$w") }

func c05Vals(v any) []any { return []any{v, "w"} }

func c05Pick() int {
	lo, hi := vparam("from", 0), vparam("to", len(c05Progs))
	if hi > len(c05Progs) {
		hi = len(c05Progs)
	}
	return lo + nondetChoice(hi-lo)
}

// H_C05_iso: nothing that existed before the run, and nothing already emitted, is
// changed; a second run of the same *Code on the same object and on an equal fresh
// copy yields identical outputs.
func H_C05_iso() {
	k := c05Pick()
	vlabel("prog", c05Progs[k])
	code := c05Code(k)
	if code == nil {
		vassert(false, "program compiles")
		return
	}
	input := c05Input()
	v := []any{hSmallInt(), []any{hSmallInt()}}
	inSnap, vSnap := hDeepCopy(input), hDeepCopy(v)
	consts := hCodeConsts(code)
	vals := c05Vals(v)
	full := hFull([]any{input, vals, consts})
	vfreeze(code)
	vfreeze(input)
	vfreeze(vals)
	vmonitor(1)
	it := code.Run(input, vals...)
	var outs, snaps []any
	for n := 0; n < 6; n++ {
		o, ok := it.Next()
		if !ok {
			break
		}
		if _, isErr := o.(error); isErr {
			outs = append(outs, o)
			snaps = append(snaps, nil)
			break
		}
		vfreeze(o)
		outs = append(outs, o)
		snaps = append(snaps, hDeepCopy(o))
	}
	vmonitor(0)
	vassert(hIdentical(input, inSnap), "input unchanged by the run")
	vassert(hIdentical(v, vSnap), "variable value unchanged by the run")
	for n := range outs {
		if _, isErr := outs[n].(error); !isErr {
			vassert(hIdentical(outs[n], snaps[n]), "emitted value unchanged while the iterator advanced")
		}
	}
	// second run, same objects, and third run on equal fresh copies: identical sequences
	again := hRun(code, input, 6, vals...)
	fresh := hRun(code, hDeepCopy(inSnap), 6, c05Vals(hDeepCopy(vSnap))...)
	vassert(len(again) == len(outs) && len(fresh) == len(outs), "re-run yields the same number of outputs")
	if len(again) == len(outs) && len(fresh) == len(outs) {
		for n := range outs {
			_, e0 := outs[n].(error)
			_, e1 := again[n].(error)
			_, e2 := fresh[n].(error)
			vassert(e0 == e1 && e0 == e2, "re-run fails at the same position")
			if !e0 && !e1 && !e2 {
				vassert(hIdentical(again[n], snaps[n]), "re-run on the same input object yields identical output")
				vassert(hIdentical(fresh[n], snaps[n]), "re-run on an equal fresh input yields identical output")
			}
		}
	}
	vassert(hIdentical(hFull([]any{input, vals, consts}), full), "nothing reachable from the input, the variables (and the slice that carries them) or the code's constants was written, spare capacity included")
	vreach("end")
}

// H_C06_shared: strict non-interference. Symbolically: no write at all to memory
// that existed before the run. Natively (replay): the same program and input run
// from 4 goroutines x 50 runs under the race detector.
func H_C06_shared() {
	k := c05Pick()
	vlabel("prog", c05Progs[k])
	code := c05Code(k)
	if code == nil {
		return
	}
	input := c05Input()
	v := []any{hSmallInt(), []any{hSmallInt()}}
	if vnative() {
		consts := hCodeConsts(code)
		vals := c05Vals(v)
		full := hFull([]any{input, vals, consts})
		alone := hRun(code, hDeepCopy(input), 6, c05Vals(hDeepCopy(v))...)
		var wg sync.WaitGroup
		bad := make([]bool, 4)
		start := make(chan struct{})
		for g := 0; g < 4; g++ {
			wg.Add(1)
			go func(g int) {
				defer wg.Done()
				<-start
				for r := 0; r < 50; r++ {
					if !c06Same(hRun(code, input, 6, vals...), alone) {
						bad[g] = true
					}
				}
			}(g)
		}
		close(start)
		wg.Wait()
		vassert(!bad[0] && !bad[1] && !bad[2] && !bad[3], "every concurrent run yields what the run yields alone")
		vassert(hIdentical(hFull([]any{input, vals, consts}), full), "the shared input, variables and code constants are unchanged after the concurrent runs")
		return
	}
	vals := c05Vals(v)
	vfreeze(code)
	vfreeze(input)
	vfreeze(vals)
	vmonitor(2)
	hRun(code, input, 6, vals...)
	vmonitor(0)
	vreach("end")
}

func c06Same(a, b []any) bool {
	if len(a) != len(b) {
		return false
	}
	for i := range a {
		_, ea := a[i].(error)
		_, eb := b[i].(error)
		if ea != eb || !ea && !hIdentical(a[i], b[i]) {
			return false
		}
	}
	return true
}

// H_C06_query: a parsed Query is shared as well: compiling and running it writes nothing
// into the syntax tree or into package-level data (Query.Run compiles on every call).
// Natively: 4 goroutines x 30 q.Run under the race detector.
func H_C06_query() {
	k := c05Pick()
	vlabel("prog", c05Progs[k])
	q := vmemo_parse(c05Progs[k])
	if q == nil {
		return
	}
	input := c05Input()
	run := func() []any {
		it := q.Run(input)
		var out []any
		for n := 0; n < 6; n++ {
			o, ok := it.Next()
			if !ok {
				break
			}
			out = append(out, o)
			if _, isErr := o.(error); isErr {
				break
			}
		}
		return out
	}
	if vnative() {
		text := q.String()
		alone := run()
		var wg sync.WaitGroup
		bad := make([]bool, 4)
		start := make(chan struct{})
		for g := 0; g < 4; g++ {
			wg.Add(1)
			go func(g int) {
				defer wg.Done()
				<-start
				for r := 0; r < 30; r++ {
					if !c06Same(run(), alone) {
						bad[g] = true
					}
				}
			}(g)
		}
		close(start)
		wg.Wait()
		vassert(!bad[0] && !bad[1] && !bad[2] && !bad[3], "every concurrent Query.Run yields what it yields alone")
		vassert(q.String() == text, "the syntax tree is unchanged")
		return
	}
	vfreeze(q)
	vfreeze(input)
	vmonitor(2)
	run()
	vmonitor(0)
	vreach("end")
}

// H_C05_history: no state leaks from one run to the next: the same *Code run on an input A
// and then on another input B yields for B exactly what a freshly compiled *Code yields
// for B (interleaving with other inputs; regexps whose pattern and flags come from the input).
func H_C05_history() {
	k := c05Pick()
	vlabel("prog", c05Progs[k])
	code := c05Code(k)
	if code == nil {
		return
	}
	a, b := c05InputK([]int{1, 3, 10, 12}[nondetChoice(4)]), c05Input()
	v := []any{1, []any{2}}
	bSnap := hDeepCopy(b)
	hRun(code, a, 6, c05Vals(v)...)
	second := hRun(code, b, 6, c05Vals(hDeepCopy(v))...)
	fresh, err := Compile(vmemo_parse(c05Progs[k]), WithVariables([]string{"$v", "$w"}))
	if err != nil {
		return
	}
	alone := hRun(fresh, bSnap, 6, c05Vals(hDeepCopy(v))...)
	vassert(c06Same(second, alone), "a run yields what it yields on a freshly compiled query, whatever the same *Code ran before")
	vreach("end")
}

// ---- C06: a *Code compiled with options (module loader, environment, custom functions) ----

type c06loader struct{ mods map[string]string }

func (l *c06loader) LoadModule(name string) (*Query, error) {
	src, ok := l.mods[name]
	if !ok {
		return nil, errors.New("module not found: " + name)
	}
	return Parse(src)
}

var c06OptProgs = []string{
	`"m" | modulemeta`, `[("m", "n") | modulemeta | .defs]`, `[.[]? | modulemeta? | {name, defs}]`, `[limit(2; repeat("m" | modulemeta | .name))]`, `env`, `$ENV.A`, `[env, $ENV] | length`,
	`twice`, `[.[]? | twice?]`, `import "m" as m; m::f`, `import "m" as m; [m::f, ("n" | modulemeta | .defs)]`, `include "n"; g | twice?`, `"zz" | try modulemeta catch "nf"`, `[("m", "m", "n") | modulemeta | .deps | length]`,
}

// H_C06_options: the capabilities granted by options live in the compiled code as well
// (the module loader behind modulemeta, the environment, custom functions): running such a
// *Code writes nothing into memory that existed before the run. Natively 4 goroutines x 50
// runs under the race detector.
func H_C06_options() {
	k := nondetChoice(len(c06OptProgs))
	vlabel("prog", c06OptProgs[k])
	q := vmemo_parse(c06OptProgs[k])
	if q == nil {
		return
	}
	loader := &c06loader{map[string]string{"m": `module {name: "m"}; import "n" as n; def f: n::g; def f(x): x;`, "n": `module {name: "n"}; def g: 1; def h(a; b): a;`}}
	code, err := Compile(q, WithModuleLoader(loader), WithEnvironLoader(func() []string { return []string{"A=1", "B=2"} }),
		WithFunction("twice", 0, 0, func(v any, _ []any) any {
			if n, ok := v.(int); ok {
				return 2 * n
			}
			return v
		}))
	if err != nil {
		vreach("compile-error")
		return
	}
	var input any
	switch nondetChoice(3) {
	case 0:
		input = hSmallInt()
	case 1:
		input = []any{"m", "n", hSmallInt()}
	default:
		input = nil
	}
	if vnative() {
		alone := hRun(code, hDeepCopy(input), 6)
		ok := true
		for attempt := 0; attempt < 20 && ok; attempt++ {
			// a fresh *Code per attempt (its caches are empty), 8 goroutines released together
			fresh, err := Compile(q, WithModuleLoader(loader), WithEnvironLoader(func() []string { return []string{"A=1", "B=2"} }),
				WithFunction("twice", 0, 0, func(v any, _ []any) any {
					if n, ok := v.(int); ok {
						return 2 * n
					}
					return v
				}))
			if err != nil {
				return
			}
			start := make(chan struct{})
			var wg sync.WaitGroup
			bad := make([]bool, 8)
			for g := 0; g < 8; g++ {
				wg.Add(1)
				go func(g int) {
					defer wg.Done()
					<-start
					for r := 0; r < 10; r++ {
						if !c06Same(hRun(fresh, input, 6), alone) {
							bad[g] = true
						}
					}
				}(g)
			}
			close(start)
			wg.Wait()
			for _, b := range bad {
				ok = ok && !b
			}
		}
		vassert(ok, "every concurrent run yields what the run yields alone")
		return
	}
	vfreeze(code)
	vfreeze(input)
	vmonitor(2)
	hRun(code, input, 6)
	vmonitor(0)
	vreach("end")
}
