package gojq

// C01 — control transfer: the product of interceptors (try, ?, ?//, //, first, limit,
// isempty, reduce, foreach, closures, bindings) x raisers (error, break to an inner or
// outer label, empty, outputs followed by an error or a break) x outer label contexts,
// compared with the reference evaluator. Which errors each construct intercepts, and
// what is emitted before the transfer, is decided per combination.

var c01Interceptors = []string{
	`try (%) catch "c"`, `(%)?`, `. as [$a] ?// $a | [$a], (%)`, `(%) // "alt"`, `first(%)`, `[limit(2; %)]`, `. as {$a} ?// $a | [$a], (%)`, `[%]`,
	`. as [$a] ?// {a: $a} ?// $a | [$a], (%)`, `reduce (%) as $v (0; . + 1)`, `isempty(%)`, `def f(g): . as [$a] ?// $b | [$a, $b], g; f(%)`,
	`[foreach (%) as $v (0; . + 1)]`, `.[]? as {$a, b: [$b]} ?// [$b] ?// $a | [$a, $b], (%)`,
	`(%) as $v | [$v]`, `"\(%)"`, `{a: (%)}`, `if (%) then 1 else 2 end`, `[.[]? | %]`, `def f(g): try g catch "fc"; f(%)`, `(%) as [$p] ?// $p | [$p]`, `[(%) | . as [$a] ?// $a | $a]`,
	`try (%) catch (., break $l)`, `(try (%) catch error)?`, `last(%)`, `[limit(1; (%), 7)]`, `nth(1; %)`, `[range(2) as $i | %]`, `((%), 8) // 9`, `(% | not) // "n"`, `(%) as {$a} ?// [$a] | [$a]`,
}

// what happens downstream of the interceptor: nothing, or a consumer that fails on some
// outputs (an error raised downstream must not be intercepted by a construct upstream)
var c01Downs = []string{`%`, `(%) | if . == 1 or . == null then error("down") else . end`, `[(%) | if . == 1 then error("down") else . end]`, `(%) | (., error("down2"))`}

var c01Raisers = []string{
	`break $l`, `error`, `error("x")`, `empty`, `1, break $l`, `1, error, 2`, `., break $l, 3`, `first(1, error)`, `(1, 2) | if . == 2 then break $l else . end`, `error(null)`,
	`.a`, `.[]`, `label $m | 1, break $m, 2`, `label $m | 1, break $l, 2`, `try error catch break $l`, `(1, null, 2) | (., error)`, `null, false, 1`, `error({a: 1})`, `[.[]?] | .[0]`, `1, (error | 2), 3`,
}

var c01Outers = []string{`label $l | %`, `[label $l | %]`, `label $l | (%), 9`, `try (label $l | %) catch "oc"`, `first(label $l | %)`, `[.[]? | label $l | %]`, `label $l | label $k | %, break $k`}

func vmemo_c01Ctl(o, d, i, j, r int) string {
	body := c04FillC01(c01Interceptors[i], c01Raisers[r])
	if j >= 0 {
		body = c04FillC01(c01Interceptors[j], body)
	}
	return c04FillC01(c01Outers[o], c04FillC01(c01Downs[d], body))
}

func c04FillC01(ctx, body string) string {
	out := ""
	for k := 0; k < len(ctx); k++ {
		if ctx[k] == '%' {
			out += body
		} else {
			out += string(ctx[k])
		}
	}
	return out
}

// H_C01_ctl: outer context x downstream consumer x one or two nested interceptors x raiser.
// Quick: the leading entries of each table; thorough (full=1): the whole product.
func H_C01_ctl() {
	no, nd, ni, nj, nr := 3, 2, 14, 5, 12
	if vparam("full", 0) == 1 {
		no, nd, ni, nj, nr = len(c01Outers), len(c01Downs), len(c01Interceptors), len(c01Interceptors)+1, len(c01Raisers)
	}
	o, d, i, r := nondetChoice(no), nondetChoice(nd), nondetChoice(ni), nondetChoice(nr)
	j := nondetChoice(nj) - 1 // -1: a single interceptor; otherwise a second one around it
	src := vmemo_c01Ctl(o, d, i, j, r)
	vlabel("prog", src)
	q := vmemo_parse(src)
	code := vmemo_compile(src)
	if q == nil || code == nil {
		vreach("compile-error")
		return
	}
	c01Compare(src, q, code, c01CtlInput())
}

func c01CtlInput() any {
	switch nondetChoice(5) {
	case 0:
		return nil
	case 1:
		return hSmallInt()
	case 2:
		return []any{hSmallInt(), []any{hSmallInt()}}
	case 3:
		return map[string]any{"a": hSmallInt()}
	default:
		return []any{[]any{nondetBool()}, nil}
	}
}

// ---- lexical scope: a definition (or variable) made in one operand of a construct is
// visible there only; a sibling operand sees the outer one ----

// constructs with operand holes A, B, C
var c01Constructs = []string{
	`[foreach (1, 2) as $i (A; B; C)]`, `[foreach (1, 2) as $i (A; B)]`, `reduce (1, 2) as $i (A; B) | C`, `if A then B else C end`, `if A then B elif C then A else B end`, `try A catch B`,
	`A | B`, `A, B`, `[A] | B`, `{a: A, b: B}`, `A as $v | B`, `(A) // B`, `A + B`, `label $l | A, B`, `def g: A; B, g`, `def g(x): A, x; g(B)`, `[A, B, C]`, `A as [$p] ?// $p | B`,
	`[limit(2; A, B)]`, `first(A, B)`, `"\(A)\(B)"`, `{(A | tostring): B}`, `[.[]? | A] | B`, `(A | B), C`, `A and B`, `[A][B]?`, `A[B]?`, `try (A | error) catch B`, `reduce A as $i (B; C)`, `[foreach A as $i (B; C; A)]`,
	`path(A)? , B`, `(A |= B)?`, `[A | B, C]`, `A as $v | B as $w | C`, `def g: def k: A; B, k; g, C`, `.[A]? , B`, `{a: A} | .a, B`, `[range(2) as $i | A] | B`,
}

// what a hole can hold: a local definition / variable and a use
var c01ScopeDefs = []string{`def f: "inner"; 0`, `def f: "inner"; f`, `"v" as $s | 0`, `def f(x): "inner1"; 0`, `(def f: "inner"; 0)`, `0 | def f: "inner"; .`}
var c01ScopeUses = []string{`f`, `$s`, `[f, $s]`, `f | tojson`, `def k: f; k`}
var c01ScopeOuters = []string{`def f: "outer"; "o" as $s | %`, `def h(f): "o" as $s | %; h("param")`, `def f: "outer"; def h(f): "o" as $s | %; h("param")`, `"o" as $s | def f: $s; %`}

func vmemo_c01Scope(c, dh, d, uh, u, o, paren int) string {
	tmpl := c01Constructs[c]
	holes := []string{"A", "B", "C"}
	fill := map[string]string{"A": "0", "B": "0", "C": "0"}
	fill[holes[uh]] = c01ScopeUses[u]
	if dh == uh {
		fill[holes[dh]] = c01ScopeDefs[d] + " | " + c01ScopeUses[u]
	} else {
		fill[holes[dh]] = c01ScopeDefs[d]
	}
	out := ""
	for k := 0; k < len(tmpl); k++ {
		ch := string(tmpl[k])
		// a hole is an upper-case A/B/C standing alone
		if (ch == "A" || ch == "B" || ch == "C") && (k+1 == len(tmpl) || !(tmpl[k+1] >= 'a' && tmpl[k+1] <= 'z')) {
			if paren == 1 {
				out += "(" + fill[ch] + ")"
			} else {
				out += fill[ch] // a definition directly at the head of the operand, where the grammar allows it
			}
		} else {
			out += ch
		}
	}
	return c04FillC01(c01ScopeOuters[o], out)
}

func H_C01_scope() {
	nc := 20
	if vparam("full", 0) == 1 {
		nc = len(c01Constructs)
	}
	c := nondetChoice(nc)
	dh, uh := nondetChoice(3), nondetChoice(3)
	d, u, o := nondetChoice(len(c01ScopeDefs)), nondetChoice(len(c01ScopeUses)), nondetChoice(len(c01ScopeOuters))
	src := vmemo_c01Scope(c, dh, d, uh, u, o, nondetChoice(2))
	vlabel("prog", src)
	q := vmemo_parse(src)
	if q == nil {
		vreach("not-a-program") // the unparenthesised operand is not accepted in this position
		return
	}
	code := vmemo_compile(src)
	if code == nil {
		vreach("compile-error")
		return
	}
	c01Compare(src, q, code, []any{hSmallInt(), []any{1}})
}

// ---- destructuring alternatives: pattern x pattern (x pattern) x body x input ----

var c01Pats = []string{`$a`, `[$a]`, `{a: $a}`, `{$a}`, `{$a: [$c]}`, `[$a, $b]`, `{"a": $b}`, `{$a, b: [$b]}`, `[[$a]]`, `{a: {$b}}`, `{$b: {$c}}`, `[$b, [$a]]`, `{$a, $b}`, `{("a", "b"): $c}`}

func c01PatInput(k int) any {
	x := hSmallInt() // symbolic leaf: null tests and comparisons in the bodies are solver-decided
	switch k {
	case 0:
		return map[string]any{"a": x}
	case 1:
		return map[string]any{"a": []any{x}}
	case 2:
		return []any{x, []any{2}}
	case 3:
		return []any{[]any{x}}
	case 4:
		return map[string]any{"a": "s", "b": []any{x}}
	case 5:
		return x
	case 6:
		return nil
	default:
		return map[string]any{"a": map[string]any{"b": x}, "b": map[string]any{"c": 4}}
	}
}

const c01NPatInputs = 8

func c01PatVars(ps ...string) string {
	seen := ""
	out := ""
	for _, p := range ps {
		for i := 0; i+1 < len(p); i++ {
			if p[i] == '$' {
				v := p[i : i+2]
				dup := false
				for k := 0; k+1 < len(seen); k += 2 {
					if seen[k:k+2] == v {
						dup = true
					}
				}
				if !dup {
					seen += v
					if out != "" {
						out += ", "
					}
					out += v
				}
			}
		}
	}
	return out
}

func vmemo_c01Pat(p1, p2, p3, body, form int) string {
	pats := c01Pats[p1] + " ?// " + c01Pats[p2]
	vars := c01PatVars(c01Pats[p1], c01Pats[p2])
	if p3 >= 0 {
		pats += " ?// " + c01Pats[p3]
		vars = c01PatVars(c01Pats[p1], c01Pats[p2], c01Pats[p3])
	}
	first := vars[:2]
	b := []string{
		`[` + vars + `]`,
		`[` + vars + `], error("x")`,
		`if ` + first + ` != null then error("y") else [` + vars + `] end`,
		`[` + vars + `] | if .[0] != null then error("z") else . end`,
	}[body]
	if form == 0 {
		return `. as ` + pats + ` | ` + b
	}
	return `[.[] as ` + pats + ` | ` + b + `]?`
}

// H_C01_pat: every pair (thorough: triple) of pattern shapes under `?//`, bodies that read
// every variable and abandon an alternative after it bound something, single inputs and
// generators (a variable must not keep a value from an abandoned alternative or from an
// earlier iteration).
func H_C01_pat() {
	n := len(c01Pats)
	p1, p2 := nondetChoice(n), nondetChoice(n)
	p3 := -1
	if vparam("full", 0) == 1 && nondetBool() {
		p3 = nondetChoice(n)
	}
	body, form := nondetChoice(4), nondetChoice(2)
	src := vmemo_c01Pat(p1, p2, p3, body, form)
	vlabel("prog", src)
	q := vmemo_parse(src)
	code := vmemo_compile(src)
	if q == nil || code == nil {
		vreach("compile-error")
		return
	}
	var input any
	if form == 0 {
		input = c01PatInput(nondetChoice(c01NPatInputs))
	} else {
		k := nondetChoice(c01NPatInputs)
		input = []any{c01PatInput(k), c01PatInput((k + 3) % c01NPatInputs), c01PatInput((k + 5) % c01NPatInputs)}
	}
	c01Compare(src, q, code, input)
}
