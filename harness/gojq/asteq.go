package gojq

// Deep structural equality of parsed queries (the exported AST types), written out
// by hand so that it runs in the interpreter without reflect.

func eqStrs(a, b []string) bool {
	if len(a) != len(b) {
		return false
	}
	for i := range a {
		if a[i] != b[i] {
			return false
		}
	}
	return true
}

func eqQuery(a, b *Query) bool {
	if a == nil || b == nil {
		return a == nil && b == nil
	}
	if !eqConstObject(a.Meta, b.Meta) || len(a.Imports) != len(b.Imports) || len(a.FuncDefs) != len(b.FuncDefs) || len(a.Patterns) != len(b.Patterns) || a.Op != b.Op {
		return false
	}
	for i := range a.Imports {
		x, y := a.Imports[i], b.Imports[i]
		if x.ImportPath != y.ImportPath || x.ImportAlias != y.ImportAlias || x.IncludePath != y.IncludePath || !eqConstObject(x.Meta, y.Meta) {
			return false
		}
	}
	for i := range a.FuncDefs {
		x, y := a.FuncDefs[i], b.FuncDefs[i]
		if x.Name != y.Name || !eqStrs(x.Args, y.Args) || !eqQuery(x.Body, y.Body) {
			return false
		}
	}
	for i := range a.Patterns {
		if !eqPattern(a.Patterns[i], b.Patterns[i]) {
			return false
		}
	}
	return eqTerm(a.Term, b.Term) && eqQuery(a.Left, b.Left) && eqQuery(a.Right, b.Right)
}

func eqQueries(a, b []*Query) bool {
	if len(a) != len(b) || (a == nil) != (b == nil) {
		return false
	}
	for i := range a {
		if !eqQuery(a[i], b[i]) {
			return false
		}
	}
	return true
}

func eqTerm(a, b *Term) bool {
	if a == nil || b == nil {
		return a == nil && b == nil
	}
	if a.Type != b.Type || a.Number != b.Number || a.Format != b.Format || a.Break != b.Break || len(a.SuffixList) != len(b.SuffixList) {
		return false
	}
	for i := range a.SuffixList {
		x, y := a.SuffixList[i], b.SuffixList[i]
		if x.Iter != y.Iter || x.Optional != y.Optional || !eqIndex(x.Index, y.Index) {
			return false
		}
	}
	if !eqIndex(a.Index, b.Index) || !eqString(a.Str, b.Str) || !eqQuery(a.Query, b.Query) {
		return false
	}
	if (a.Func == nil) != (b.Func == nil) || a.Func != nil && (a.Func.Name != b.Func.Name || !eqQueries(a.Func.Args, b.Func.Args)) {
		return false
	}
	if (a.Object == nil) != (b.Object == nil) {
		return false
	}
	if a.Object != nil {
		if len(a.Object.KeyVals) != len(b.Object.KeyVals) {
			return false
		}
		for i := range a.Object.KeyVals {
			x, y := a.Object.KeyVals[i], b.Object.KeyVals[i]
			if x.Key != y.Key || !eqString(x.KeyString, y.KeyString) || !eqQuery(x.KeyQuery, y.KeyQuery) || !eqQuery(x.Val, y.Val) {
				return false
			}
		}
	}
	if (a.Array == nil) != (b.Array == nil) || a.Array != nil && !eqQuery(a.Array.Query, b.Array.Query) {
		return false
	}
	if (a.Unary == nil) != (b.Unary == nil) || a.Unary != nil && (a.Unary.Op != b.Unary.Op || !eqTerm(a.Unary.Term, b.Unary.Term)) {
		return false
	}
	if (a.If == nil) != (b.If == nil) {
		return false
	}
	if a.If != nil {
		x, y := a.If, b.If
		if !eqQuery(x.Cond, y.Cond) || !eqQuery(x.Then, y.Then) || !eqQuery(x.Else, y.Else) || len(x.Elif) != len(y.Elif) {
			return false
		}
		for i := range x.Elif {
			if !eqQuery(x.Elif[i].Cond, y.Elif[i].Cond) || !eqQuery(x.Elif[i].Then, y.Elif[i].Then) {
				return false
			}
		}
	}
	if (a.Try == nil) != (b.Try == nil) || a.Try != nil && (!eqQuery(a.Try.Body, b.Try.Body) || !eqQuery(a.Try.Catch, b.Try.Catch)) {
		return false
	}
	if (a.Reduce == nil) != (b.Reduce == nil) || a.Reduce != nil && (!eqQuery(a.Reduce.Query, b.Reduce.Query) || !eqPattern(a.Reduce.Pattern, b.Reduce.Pattern) || !eqQuery(a.Reduce.Start, b.Reduce.Start) || !eqQuery(a.Reduce.Update, b.Reduce.Update)) {
		return false
	}
	if (a.Foreach == nil) != (b.Foreach == nil) || a.Foreach != nil && (!eqQuery(a.Foreach.Query, b.Foreach.Query) || !eqPattern(a.Foreach.Pattern, b.Foreach.Pattern) || !eqQuery(a.Foreach.Start, b.Foreach.Start) || !eqQuery(a.Foreach.Update, b.Foreach.Update) || !eqQuery(a.Foreach.Extract, b.Foreach.Extract)) {
		return false
	}
	if (a.Label == nil) != (b.Label == nil) || a.Label != nil && (a.Label.Ident != b.Label.Ident || !eqQuery(a.Label.Body, b.Label.Body)) {
		return false
	}
	return true
}

func eqIndex(a, b *Index) bool {
	if a == nil || b == nil {
		return a == nil && b == nil
	}
	return a.Name == b.Name && a.IsSlice == b.IsSlice && eqString(a.Str, b.Str) && eqQuery(a.Start, b.Start) && eqQuery(a.End, b.End)
}

func eqString(a, b *String) bool {
	if a == nil || b == nil {
		return a == nil && b == nil
	}
	return a.Str == b.Str && eqQueries(a.Queries, b.Queries)
}

func eqPattern(a, b *Pattern) bool {
	if a == nil || b == nil {
		return a == nil && b == nil
	}
	if a.Name != b.Name || len(a.Array) != len(b.Array) || len(a.Object) != len(b.Object) {
		return false
	}
	for i := range a.Array {
		if !eqPattern(a.Array[i], b.Array[i]) {
			return false
		}
	}
	for i := range a.Object {
		x, y := a.Object[i], b.Object[i]
		if x.Key != y.Key || !eqString(x.KeyString, y.KeyString) || !eqQuery(x.KeyQuery, y.KeyQuery) || !eqPattern(x.Val, y.Val) {
			return false
		}
	}
	return true
}

func eqConstTerm(a, b *ConstTerm) bool {
	if a == nil || b == nil {
		return a == nil && b == nil
	}
	if a.Number != b.Number || a.Str != b.Str || a.Null != b.Null || a.True != b.True || a.False != b.False {
		return false
	}
	if (a.Array == nil) != (b.Array == nil) {
		return false
	}
	if a.Array != nil {
		if len(a.Array.Elems) != len(b.Array.Elems) {
			return false
		}
		for i := range a.Array.Elems {
			if !eqConstTerm(a.Array.Elems[i], b.Array.Elems[i]) {
				return false
			}
		}
	}
	return eqConstObject(a.Object, b.Object)
}

func eqConstObject(a, b *ConstObject) bool {
	if a == nil || b == nil {
		return a == nil && b == nil
	}
	if len(a.KeyVals) != len(b.KeyVals) {
		return false
	}
	for i := range a.KeyVals {
		x, y := a.KeyVals[i], b.KeyVals[i]
		if x.Key != y.Key || x.KeyString != y.KeyString || !eqConstTerm(x.Val, y.Val) {
			return false
		}
	}
	return true
}
