package gojq

import "strings"

// C04 — generated programs: instead of a hand-picked list, each rewrite's input shapes are
// produced as the full product of small fragment tables (producer x continuation x
// context, recursive body x wrapper x consumer, constant path x assignment form, literal
// x suffix x context), so that a rewrite is exercised at join points, inside try bodies,
// behind `?`, and in contexts that observe a stray stack slot.

var c04Joins = []string{
	`if . then 1 else $x end`, `if . then $x else 1 end`, `(1, $x)`, `($x, 1)`, `(.a? // $x)`, `(try error catch $x)`, `(try $x catch 1)`,
	`(.[]?, $x)`, `$x`, `1`, `(. as $z | $z)`, `(reduce . as $q (0; $x))`, `(if . then . else $x end)`, `($x | (., 1))`, `(1 | $x)`, `("s", .)`,
}

var c04Conts = []string{
	`$y`, `2`, `.`, `[.]`, `. + 1`, `break $l`, `$x`, `{b: .}`, `"s"`, `($y | .)`, `(., $y)`, `$__loc__.line`, `[$x, $y]`, `. as $v | $y`,
}

var c04Ctxs = []string{
	`%`, `[%]`, `{a: (%)}`, `1 + (%)`, `(%) as $z | [$z, .]`, `[.[]? | %]`, `first(%)`, `[limit(2; %)]`, `try (%) catch "c"`, `[(%)?]`,
	`def g: %; [g]`, `{(% | tojson): .}`, `[%, %]`, `(%) | [., $x, $y]`, `if (%) then "t" else "f" end`, `[(%) | . as $w | $y]`,
}

var c04RecBodies = []string{
	`if . < 2 then . + 1 | f else . end`, `if . < 2 then (. + 1 | f) else ., 7 end`, `., (if . < 2 then . + 1 | f else empty end)`,
	`(select(. < 2) | . + 1 | f) // .`, `. as $v | if $v < 2 then $v + 1 | f else $v end`, `if . < 2 then . + 1 | f | . else . end`,
	`if . < 2 then . + 1 | f else error("deep") end`, `if . < 2 then . + 1 | f elif . < 3 then "c" else . end`,
}

// the wrapper is applied to the whole body (w) or to the recursive call only (c)
var c04RecWraps = []string{
	`%`, `try (%) catch "c"`, `(%)?`, `label $l | %`, `1 as $w | %`, `first(%)`, `(%) // "alt"`, `(%) as $r | $r`, `[%] | .[]`,
	`reduce 0 as $q (.; %)`, `try (%) catch error`, `try (%) catch ("c" | error)?`, `(% | .)`, `. as [$p] ?// $p | %`,
}

var c04RecUses = []string{
	`0 | f`, `[0 | f]`, `0 | f | if . == "c" then . else error("boom") end`, `try (0 | f | error("boom")) catch .`, `[limit(2; 0 | f)]`,
	`first(0 | f)`, `0 | f as $r | [$r, .]`, `[0 | f | select(. != 2)]`, `(0 | f) // "none"`, `f`, `[f] | length`, `f | error("boom")`,
	`[.[]? | f]`, `0 | f | f`, `[0 | f | error("boom")?]`, `label $o | 0 | f | ., break $o`,
}

var c04PathHeads = []string{`.a`, `."a"`, `.["a"]`, `.[0]`, `.[-1]`, `.[1:]`, `.[:1]`, `.[0:1]`, `.[]`, `.b`, `.[1]`, `.["a","b"]`, `.[null]`, `.[1.0]`}
var c04PathTails = []string{``, `.b`, `.b?`, `[0]`, `[0]?`, `[1:]`, `[]`, `."b"`, `["b"]?`, `[-1]`}
var c04AssignForms = []string{`% = 1`, `(%) = 1`, `% |= 3`, `% += 1`, `% = (1,2)`, `% //= 4`, `% = .`, `[% = 1]`, `try (% = 1) catch "c"`, `(% = 1)?`, `% = empty`, `% |= empty`, `path(%)`, `[paths] | length`, `del(%)`, `% as $v | [$v]`}

var c04Lits = []string{
	`1`, `-1`, `"a"`, `null`, `[1]`, `[1,[2]]`, `{a:1}`, `{"a":[1]}`, `[]`, `{}`, `-1.5`, `"a\(1)"`, `[.]`, `{a:.}`, `[1,.]`, `(1,2)`, `(1|2)`, `{("a","b"):1}`,
	`{a:1,b:{c:[2]}}`, `[[1],{a:2}]`, `true`, `[1,2|3]`, `[(1,2)]`, `{a:(1,2)}`, `{"a":1,"a":2}`, `[-1]`, `{a:-1}`, `1e1000`, `[1,null,"s"]`, `0`,
}

var c04Sufs = []string{``, `[0]`, `.a`, `[0]?`, `.a?`, `[1:]`, `[]`, `[]?`, ` | .[0]?`, ` as $z | $z`, ` | length`, `.a.b?`, `[0][0]?`, `["a"]?`, `[-1]?`, `?`}

var c04LitCtxs = []string{`%`, `[%]`, `{a: %}`, `-(%)`, `[-%]`, `.[%]?`, `(%) + .`, `[%, %]`, `if % then 1 else 2 end`, `{(%|tojson): .}`, `(%) as $c | [$c, .]`, `. as $c | %`, `[.[]? | %]`, `(% | .) , 3`, `try (%) catch "c"`, `path(%)?`}

// conditionals: condition x then-branch x tail (no else, else, elif chains) x context
var c04IfConds = []string{`.`, `. > 3`, `.a?`, `type == "string"`, `(., 1)`, `empty`}
var c04IfThens = []string{`.`, `1`, `empty`, `.a?`, `$x`, `[.]`}
var c04IfTails = []string{`end`, `else . end`, `else 2 end`, `elif . then . end`, `elif . > 3 then . end`, `elif . then 1 else . end`, `elif .a? then . elif . then . end`, `else empty end`}
var c04IfCtxs = []string{`%`, `{a: (%)}`, `[%]`, `% | [.]`, `(%) as $z | [$z, .]`, `[(%)?, 7]`, `if (%) then "t" else "f" end`, `(%) // "alt"`}

func c04Fill(ctx, body string) string { return strings.ReplaceAll(ctx, "%", body) }

func c04Pick(xs []string, quick int) string {
	n := len(xs)
	if vparam("full", 0) == 0 && quick < n {
		n = quick
	}
	return xs[nondetChoice(n)]
}

// c04GenProg: one generated program of the family chosen by the parameter "family"
func c04GenProg(family int) string {
	switch family {
	case 0:
		j, k, c := c04Pick(c04Joins, 8), c04Pick(c04Conts, 6), c04Pick(c04Ctxs, 8)
		return `1 as $x | 2 as $y | label $l | ` + c04Fill(c, j+` | `+k)
	case 1:
		b, w, u := c04Pick(c04RecBodies, 4), c04Pick(c04RecWraps, 6), c04Pick(c04RecUses, 8)
		body := c04Fill(w, b)
		if nondetBool() {
			// wrap the recursive call only
			body = strings.Replace(b, `. + 1 | f`, c04Fill(w, `. + 1 | f`), 1)
		}
		return `def f: ` + body + `; ` + u
	case 2:
		h, t, f := c04Pick(c04PathHeads, 8), c04Pick(c04PathTails, 4), c04Pick(c04AssignForms, 7)
		if nondetBool() {
			h += `?`
		}
		return c04Fill(f, h+t)
	case 4:
		c, t, tl, cx := c04Pick(c04IfConds, 3), c04Pick(c04IfThens, 4), c04Pick(c04IfTails, 5), c04Pick(c04IfCtxs, 4)
		return `1 as $x | ` + c04Fill(cx, `if `+c+` then `+t+` `+tl)
	default:
		l, s, c := c04Pick(c04Lits, 12), c04Pick(c04Sufs, 8), c04Pick(c04LitCtxs, 8)
		return c04Fill(c, l+s)
	}
}

// H_C04_gen*: generated program x each single rewrite off (and all off) x input universe.
// Quick: the leading entries of each table; thorough (full=1): the whole product.
func c04Gen(family int) {
	src := c04GenProg(family)
	vlabel("prog", src)
	c04Diff(src)
}

func H_C04_gen_join()   { c04Gen(0) }
func H_C04_gen_rec()    { c04Gen(1) }
func H_C04_gen_assign() { c04Gen(2) }
func H_C04_gen_lit()    { c04Gen(3) }
func H_C04_gen_if()     { c04Gen(4) }
