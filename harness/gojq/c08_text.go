package gojq

// C08 / C09 / C17 on query text: the lexer and the parser on fully symbolic bytes.

// H_C08_lex: Lex from a symbolic buffer in both string states never panics and keeps
// its offset inside the source.
func H_C08_lex() {
	n := vparam("n", 3)
	src := nondetString(n)
	l := newLexer(src)
	l.inString = nondetBool()
	var lval yySymType
	prev := 0
	for k := 0; k <= n+1; k++ {
		tok := l.Lex(&lval)
		vassert(prev <= l.offset, "offset is monotone")
		vassert(l.offset <= len(src), "offset stays within the source")
		prev = l.offset
		if tok == eof {
			vreach("eof")
			return
		}
	}
	vassert(false, "more tokens than bytes+1")
}

// H_C08_parse: Parse on a symbolic byte string returns a query or a *ParseError whose
// Offset lies within the source (C08); for valid UTF-8 sources the error's Token is
// the text that ends at Offset (C17); an accepted query prints to a source that parses
// to a deeply equal AST and printing is a fixed point (C09).
func H_C08_parse() {
	c08CheckParse(nondetString(vparam("n", 3)))
}

// H_C08_splice: a corpus query with one or two symbolic bytes spliced in at every
// position (overwrite one byte, insert one byte, overwrite two bytes): same obligations
// as H_C08_parse; an accepted mutant is also compiled and run on the corpus input
// (no panic anywhere in Compile, Run, Next).
func H_C08_splice() {
	lo, hi := vparam("from", 0), vparam("to", len(corpusCases))
	if hi > len(corpusCases) {
		hi = len(corpusCases)
	}
	k := lo + nondetChoice(hi-lo)
	c := corpusCases[k]
	if len(c.query) > vparam("maxlen", 40) {
		vreach("skipped-long")
		return
	}
	vlabel("query", c.query)
	pos := nondetChoice(len(c.query) + 1)
	var src string
	switch nondetChoice(vparam("modes", 3)) {
	case 0: // overwrite one byte
		if pos >= len(c.query) {
			return
		}
		src = c.query[:pos] + nondetString(1) + c.query[pos+1:]
	case 1: // insert one byte
		src = c.query[:pos] + nondetString(1) + c.query[pos:]
	default: // overwrite two bytes
		if pos+1 >= len(c.query) {
			return
		}
		src = c.query[:pos] + nondetString(2) + c.query[pos+2:]
	}
	q := c08CheckParse(src)
	if q == nil {
		return
	}
	code, err := Compile(q)
	if err != nil {
		vreach("compile-error")
		return
	}
	it := code.Run(c.inputs[0])
	for n := 0; n < 4; n++ {
		v, ok := it.Next()
		if !ok {
			break
		}
		if _, isErr := v.(error); isErr {
			break
		}
	}
	vreach("ran")
}

func c08CheckParse(src string) *Query {
	q, err := Parse(src)
	if err != nil {
		pe, ok := err.(*ParseError)
		vassert(ok, "Parse fails with a *ParseError")
		if !ok {
			return nil
		}
		vassert(0 <= pe.Offset, "ParseError.Offset is not negative")
		vassert(pe.Offset <= len(src), "ParseError.Offset lies within the source")
		_ = pe.Error()
		if refValidUTF8(src) && pe.Offset <= len(src) && len(pe.Token) <= pe.Offset {
			vassert(src[pe.Offset-len(pe.Token):pe.Offset] == pe.Token, "ParseError.Token is the source text that ends at Offset")
			vreach("token-checked")
		} else if refValidUTF8(src) {
			vassert(false, "ParseError.Token is not longer than the text before Offset")
		}
		vreach("rejected")
		return nil
	}
	s := q.String()
	q2, err2 := Parse(s)
	vassert(err2 == nil, "the printed form of an accepted query is accepted")
	if err2 != nil {
		return nil
	}
	vassert(eqQuery(q, q2), "the printed form parses to a deeply equal AST")
	vassert(q2.String() == s, "printing is a fixed point")
	vreach("accepted")
	return q
}
