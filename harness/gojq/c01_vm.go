package gojq

// C01 — whole-VM differential against the reference evaluator refjq: programs of the
// core grammar (a fixed list of nestings from the property text plus every program
// built from a small leaf alphabet by one or two grammar constructors), inputs of
// enumerated shape with symbolic leaves.

var c01Progs = []string{
	// generator order
	`(1,2) + (10,20)`, `[(1,2) * (3,4)]`, `[.[] + .[]]`, `{(("a","b")):(1,2)}`, `{a:(1,2), b:(3,4)}`, `"\(1,2)-\(3,4)"`, `[(1,2) < (2,1)]`, `[(true,false) and (true,false)]`, `[(true,false) or (true,false)]`,
	`[.[(0,1)]]?`, `[.[(0,1):(1,2)]]?`, `def f($a; $b): [$a, $b]; [f(1,2; 3,4)]`, `def f(a; b): [a, b]; [f(1,2; 3,4)]`, `[range(0,1; 2,3)]`, `[limit(2; 1,2,3)]`, `[first(range(5))]`, `[range(3)] | map(. * 2)`,
	// scoping, closures, recursion, shadowing
	`def f: 1; def g: f + 1; def f: 10; [f, g]`, `def f(x): x | x; [1 | f(. + 1, . * 10)]`, `def f(g): def h: g; [h, (2 | h)]; 1 | f(. + 1)`, `1 as $x | 2 as $y | [$x, $y, (3 as $x | $x), $x]`,
	`def f: def g: 3; g * 2; f`, `def fac: if . <= 1 then 1 else . * (. - 1 | fac) end; [1,2,3,4] | map(fac)`, `def f($x): $x + x; 5 | f(. * 2)`, `def f(g): . as $x | g | . + $x; 3 | f(. * 2)`,
	`. as $d | def f: $d; [1 | f]`, `def f(x): 1 as $v | x; 2 as $v | f($v)`, `def g(f): reduce (1,2) as $i (0; . + (f)); g(10)`, `def f(x): [x]; def g: f(1,2); g`, `[.[] as $x | def f: $x * 2; f]`,
	`def f: reduce .[] as $x (0; . + $x); f`, `def r(f): def s: f | (., s); s; [limit(3; 1 | r(. + 1))]`, `def f(a; b): a as $x | b as $y | [$x, $y]; [f(1,2; 3,4)]`, `def ack(m; n): if m == 0 then n + 1 elif n == 0 then ack(m - 1; 1) else ack(m - 1; ack(m; n - 1)) end; ack(1; 2)`,
	// try / catch / errors
	`try error("x") catch .`, `try error catch .`, `[.[] | try (if . > 1 then error("big") else . end) catch "c"]?`, `try (1, error("e"), 3) catch "caught"`, `[(1, 2) | try (if . == 1 then error("a") else . end) catch .]`,
	`try (try error("in") catch error("out")) catch .`, `(try 1 catch .) | error("after")`, `try ((1, 2) | error) catch .`, `[.[]?]`, `[..?]`, `try error(null) catch .`, `try error({a: 1}) catch .a`, `[try error("x")]`, `error("x")?`,
	`.a?`, `[.[] | .a?]`, `try (.a.b.c) catch "bad"`, `[.[] | tostring?]`, `(.a, .b)?`, `try (.[] | error) catch .`, `[try (.[] | if . == 2 then error("two") else . end) catch "c"]?`, `1, error("e"), 2`, `[1, error("e")]?`,
	// alternative operator
	`.a // "d"`, `(null, false, 1, 2) // 3`, `(null, false) // 3`, `empty // 4`, `[.[] // "x"]?`, `(.a // .b) // "c"`, `[(1, null, 2) // 9]`, `first(empty) // "none"`, `(false // false) // 1`, `.[]? // "e"`,
	// if
	`if . then "t" else "f" end`, `if (true, false) then 1 else 2 end`, `[if .[] then 1 else 2 end]?`, `if . == null then "n" elif . == 1 then "one" else "o" end`, `if empty then 1 else 2 end`, `if . then 1 end`, `[.[] | if . > 1 then "big" elif . > 0 then "small" else "neg" end]?`,
	// reduce / foreach
	`reduce .[] as $x (0; . + $x)`, `reduce empty as $x (0; . + 1)`, `reduce (1,2,3) as $x (0; if $x == 2 then empty else . + $x end)`, `reduce .[] as [$a, $b] (0; . + $a)?`, `[foreach (1,2,3) as $x (0; . + $x)]`, `[foreach (1,2,3) as $x (0; . + $x; [$x, .])]`,
	`[foreach .[] as $x (0; if $x == 2 then empty else . + $x end; .)]?`, `[foreach (1,2) as $x (0; (. + $x, . * 10); .)]`, `reduce (1,2) as $x ((0,100); . + $x)`, `[foreach (1,2) as $x ((0,10); . + $x)]`, `reduce .[] as $x (null; . + $x)`,
	`[foreach range(5) as $i (null; $i; select(. % 2 == 0))]`, `reduce range(4) as $i ([]; . + [$i * $i])`, `[limit(3; foreach range(10) as $i (0; . + $i))]`, `reduce (.[]?) as {a: $x} (0; . + $x)?`,
	// label / break
	`label $l | 1, break $l, 2`, `[label $l | .[] | if . > 1 then break $l else . end]?`, `label $a | label $b | 1, break $a, 2`, `[label $a | (label $b | 1, break $b, 2), 3]`, `[.[] | label $l | ., break $l]?`, `label $l | (1, 2) | (., break $l)`,
	`def f: label $l | (1, break $l, 2); [f, f]`, `[label $out | foreach .[] as $x (0; . + $x; if . > 2 then ., break $out else . end)]?`, `first(1, error("no"))`, `[limit(2; 1, 2, error("no"))]`, `isempty(1, error("no"))`, `isempty(empty)`,
	// bindings and destructuring
	`. as [$a, $b] | {a: $a, b: $b}`, `. as {a: $x} | $x`, `. as [$a, [$b]] | [$a, $b]`, `. as {a: [$x, $y]} | [$x, $y]`, `.[] as [$a] | $a`, `. as {$a, b: $c} | [$a, $c]`, `. as {"a": $x} | $x`, `. as {("a", "b"): $x} | $x`,
	`. as [$a] ?// $a | [$a]`, `[.[] as [$a] ?// $a | [$a]]?`, `[.[] as [$a] ?// $b | [$a, $b]]?`, `. as {a: $x} ?// [$x] ?// $x | [$x]`, `[.[] as [$a] ?// $a | if ($a | type) == "array" then error("arr") else $a end]?`,
	`[.[] as {a: $x} ?// [$x] | $x]?`, `. as [$a, $b] ?// {a: $a, b: $b} | [$a, $b]`, `(. as [$a] ?// $a | $a) | if type == "array" then error("down") else . end`, `[[1,[2]], 3] | .[] as [$a, [$b]] ?// $a | [$a, $b]`,
	// construction, access, misc
	`[.[] | {a: ., b: [.]}]?`, `{a: 1} | .a`, `[1, 2, 3] | .[1:]`, `[.[1:], .[:1], .[-1:]]?`, `.[0]`, `.[-1]?`, `."a"?`, `.["a"]?`, `{"a b": 1} | ."a b"`, `{a: {b: 2}} | .a.b`, `[.[] | .[0]?]`, `{(.[0]?|tostring): 1}?`, `[1,[2,[3]]] | [..]`,
	`[.[] | not]?`, `length`, `[.[] | length]?`, `type`, `[.[] | type]?`, `keys?`, `[.[] | select(. != null)]?`, `map(. + 1)?`, `[recurse(if . < 3 then . + 1 else empty end)]?`, `[.[] | tostring]?`, `add?`, `any?`, `all?`, `[range(.[0]?; 3)]?`,
	`[1,2] | [.[] as $x | .[] as $y | [$x, $y]]`, `[(1,2) as $x | (3,4) as $y | $x * $y]`, `[[1,2],[3,4]] | [.[] | .[] | . * 2]`, `{a:[1,2]} | [.a[] as $x | {x: $x}]`, `-(1, 2)`, `[-.[]]?`, `-"a"?`, `[.[] | -.]?`,
	`"\(.)"`, `"a\(1)b\(2)c"`, `@json "v=\(.)"`, `@text "\(.)x"`, `"\("\(1)")"`, `[.[] | "<\(.)>"]?`, `"\(.a?)\(.b?)"`, `"\(1 + 2)"`, `"x" * 2`, `[.[] | . % 2]?`, `1 / 0?`, `[1 / (0, 2)]?`, `[.[] / 2]?`, `"a,b" / ","`, `{} + {a: 1}`, `[1] - [1]`,
	`[limit(5; 1 | until(. > 100; . * 2))]`, `[limit(6; 1 | while(. < 20; . * 2))]`, `[limit(4; 1 | repeat(. * 2))]`, `[limit(3; repeat(1))]`, `[.[] | values]?`, `[splits("a")]?`, `first(.[]?)`, `[limit(0; 1)]`, `nth(1; 1, 2, 3)`, `[combinations]?`, `min_by(.)?`, `[.[] | numbers]?`, `in({a: 1})?`,
	`def f: if length > 2 then .[1:] | f else . end; f?`, `[.[]?] | sort`, `[.[]?] | unique`, `[.[]?] | reverse?`, `flatten?`, `[.[] | floor]?`, `[.[] | sqrt | floor]?`, `tojson`, `ascii_downcase?`, `ltrimstr("a")?`, `join(",")?`, `implode?`, `explode?`, `index(1)?`, `has(0)?`, `contains([1])?`,
}

func c01Input() any {
	switch nondetChoice(10) {
	case 0:
		return nil
	case 1:
		return nondetBool()
	case 2:
		return hSmallInt()
	case 3:
		return nondetString(1)
	case 4:
		return []any{}
	case 5:
		return []any{hSmallInt(), hSmallInt()}
	case 6:
		return []any{[]any{hSmallInt()}, hSmallInt(), nil}
	case 7:
		return map[string]any{"a": hSmallInt(), "b": []any{hSmallInt()}}
	case 8:
		return map[string]any{"a": map[string]any{"b": map[string]any{"c": hSmallInt()}}}
	default:
		return []any{map[string]any{"a": hSmallInt()}, []any{hSmallInt(), hSmallInt()}}
	}
}

func c01Compare(src string, q *Query, code *Code, input any) {
	want, ok := refRun(q, hDeepCopy(input), 10, nil)
	if !ok {
		vreach("outside-reference")
		return
	}
	got := hRun(code, input, 10)
	vassert(len(got) == len(want), "same number of outputs as the reference semantics")
	if len(got) != len(want) {
		return
	}
	for i := range got {
		e1, isE1 := got[i].(error)
		e2, isE2 := want[i].(error)
		vassert(isE1 == isE2, "an error is emitted exactly where the reference semantics raises one")
		if isE1 && isE2 {
			_, v1 := e1.(ValueError)
			_, v2 := e2.(ValueError)
			vassert(v1 == v2, "same kind of error as the reference semantics")
			if v1 && v2 {
				vassert(hEqual(hErrValue(e1), hErrValue(e2)), "same error value as the reference semantics")
			} else if !v1 && !v2 {
				vassert(e1.Error() == e2.Error(), "same error message as the reference semantics")
			}
			continue
		}
		if !isE1 && !isE2 {
			vassert(TypeOf(got[i]) == TypeOf(want[i]) && hEqual(got[i], want[i]), "same value as the reference semantics, in the same order")
		}
	}
	vreach("compared")
}

// H_C01_vm: the listed programs.
func H_C01_vm() {
	lo, hi := vparam("from", 0), vparam("to", len(c01Progs))
	if hi > len(c01Progs) {
		hi = len(c01Progs)
	}
	src := c01Progs[lo+nondetChoice(hi-lo)]
	vlabel("prog", src)
	q := vmemo_parse(src)
	code := vmemo_compile(src)
	if q == nil || code == nil {
		vassert(false, "program compiles")
		return
	}
	c01Compare(src, q, code, c01Input())
}

// ---- bounded-exhaustive small programs ----

var c01Leaves = []string{`.`, `.a`, `.[]`, `1`, `$x`, `empty`, `error`, `.[0]`, `"s"`, `null`}

// unary constructors: %s is the sub-program
var c01Unary = []string{`[%s]`, `{a: %s}`, `(%s)?`, `try %s catch .`, `-(%s)`, `first(%s)`, `[limit(1; %s)]`, `if %s then 1 else 2 end`, `label $l | %s | ., break $l`, `reduce (%s) as $v (0; . + 1)`, `[foreach (%s) as $v (0; . + 1)]`, `def f: %s; [f]`, `(%s) as $y | [$y]`, `(%s) as [$y] ?// $y | [$y]`, `"\(%s)"`, `isempty(%s)`, `{(%s | tostring): 1}`, `def f(g): [g]; f(%s)`}

// binary constructors
var c01Binary = []string{`%s | %s`, `%s, %s`, `%s // %s`, `%s + %s`, `%s == %s`, `%s and %s`, `%s or %s`, `[%s, %s]`, `{a: %s, b: %s}`, `if %s then %s else 3 end`, `try %s catch %s`, `%s as $y | %s`, `reduce (%s) as $v (0; %s)`, `(%s) < (%s)`, `def f(g): g | g; f(%s, %s)`, `[%s][%s]?`, `[foreach (%s) as $v (1; %s; .)]`, `label $l | %s | (%s, break $l)`}

func c01Subst(tmpl string, subs ...string) string {
	out := ""
	n := 0
	for i := 0; i < len(tmpl); i++ {
		if tmpl[i] == '%' && i+1 < len(tmpl) && tmpl[i+1] == 's' {
			out += subs[n]
			n++
			i++
		} else {
			out += string(tmpl[i])
		}
	}
	return out
}

func vmemo_c01Small(kind, a, b, c int) string {
	switch kind {
	case 0:
		return c01Subst(c01Unary[a], c01Leaves[b])
	case 1:
		return c01Subst(c01Binary[a], c01Leaves[b], c01Leaves[c])
	}
	// two constructors: unary around binary
	return c01Subst(c01Unary[a%len(c01Unary)], c01Subst(c01Binary[a/len(c01Unary)], c01Leaves[b], c01Leaves[c]))
}

// H_C01_small: every program with one constructor over the leaf alphabet (and, in the
// thorough tier, unary-around-binary), on the input universe, with $x a symbolic int.
func H_C01_small() {
	kind := nondetChoice(2 + vparam("depth2", 0))
	var a, b, c int
	switch kind {
	case 0:
		a, b = nondetChoice(len(c01Unary)), nondetChoice(len(c01Leaves))
	case 1:
		a, b, c = nondetChoice(len(c01Binary)), nondetChoice(len(c01Leaves)), nondetChoice(len(c01Leaves))
	default:
		a, b, c = nondetChoice(len(c01Unary)*len(c01Binary)), nondetChoice(len(c01Leaves)), nondetChoice(len(c01Leaves))
	}
	src := vmemo_c01Small(kind, a, b, c)
	vlabel("prog", src)
	q := vmemo_parse(src)
	if q == nil {
		vreach("parse-error")
		return
	}
	code := vmemo_compileVars(src, "$x")
	if code == nil {
		vreach("compile-error")
		return
	}
	input := c01Input()
	x := hSmallInt()
	want, ok := refRun(q, hDeepCopy(input), 10, map[string]any{"$x": x})
	if !ok {
		vreach("outside-reference")
		return
	}
	got := hRun(code, input, 10, x)
	vassert(len(got) == len(want), "same number of outputs as the reference semantics")
	if len(got) != len(want) {
		return
	}
	for i := range got {
		_, isE1 := got[i].(error)
		_, isE2 := want[i].(error)
		vassert(isE1 == isE2, "an error is emitted exactly where the reference semantics raises one")
		if !isE1 && !isE2 {
			vassert(TypeOf(got[i]) == TypeOf(want[i]) && hEqual(got[i], want[i]), "same value as the reference semantics, in the same order")
		}
	}
	vreach("compared")
}
