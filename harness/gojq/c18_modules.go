package gojq

import (
	"errors"
	"io/fs"
	"os"
	"path/filepath"
	"strings"
	"time"
)

// C18 — modules behave as textual inclusion with namespacing. The file system is
// virtual in gosym (os.Stat/ReadFile/Open/UserHomeDir delegate to the functions below)
// and materialised in a temporary directory for native replays.

var c18fs = map[string]string{}
var c18root = "/v"
var c18home = "/v/home"

const c18dir = "\x00dir"

type c18info struct {
	name string
	dir  bool
}

func (i c18info) Name() string       { return i.name }
func (i c18info) Size() int64        { return 0 }
func (i c18info) Mode() fs.FileMode  { return 0 }
func (i c18info) ModTime() time.Time { return time.Time{} }
func (i c18info) IsDir() bool        { return i.dir }
func (i c18info) Sys() any           { return nil }

var c18noent = errors.New("no such file or directory")

func hOsStat(path string) (os.FileInfo, error) {
	if c, ok := c18fs[path]; ok {
		return c18info{filepath.Base(path), c == c18dir}, nil
	}
	return nil, c18noent
}

func hOsReadFile(path string) ([]byte, error) {
	if c, ok := c18fs[path]; ok && c != c18dir {
		return []byte(c), nil
	}
	return nil, c18noent
}

func hOsUserHomeDir() (string, error) { return c18home, nil }

func c18Setup() {
	if vnative() {
		dir, err := os.MkdirTemp("", "verif-c18")
		if err != nil {
			panic("REPLAY: cannot create a temporary directory")
		}
		c18root = dir
		c18home = filepath.Join(dir, "home")
		os.Setenv("HOME", c18home)
	}
	c18fs = map[string]string{}
}

func c18Cleanup() {
	if vnative() {
		os.RemoveAll(c18root)
	}
}

func c18Put(path, content string) {
	if vnative() {
		if content == c18dir {
			os.MkdirAll(path, 0o755)
			return
		}
		os.MkdirAll(filepath.Dir(path), 0o755)
		os.WriteFile(path, []byte(content), 0o644)
		return
	}
	c18fs[path] = content
}

func c18RunSrc(src string, loader ModuleLoader) []any {
	q, err := Parse(src)
	if err != nil {
		return []any{"<parse error>"}
	}
	code, err := Compile(q, WithModuleLoader(loader))
	if err != nil {
		return []any{"<compile error>"}
	}
	return hRun(code, nil, 4)
}

// H_C18_lookup: the first existing candidate wins, in the order: for each search
// directory (the import's "search" first), name.jq then name/<basename>.jq.
func H_C18_lookup() {
	c18Setup()
	defer c18Cleanup()
	name := []string{"m", "x/m"}[nondetChoice(2)]
	ext := ".jq"
	data := nondetBool()
	if data {
		ext = ".json"
	}
	withSearch := nondetBool()
	dirs := []string{filepath.Join(c18root, "d1"), filepath.Join(c18root, "d2")}
	order := dirs
	sdir := filepath.Join(c18root, "s")
	if withSearch {
		order = append([]string{sdir}, dirs...)
	}
	want := ""
	for _, d := range order {
		for _, cand := range []string{filepath.Join(d, name+ext), filepath.Join(d, name, filepath.Base(name)+ext)} {
			if nondetBool() {
				if data {
					c18Put(cand, `"`+cand[len(c18root):]+`"`)
				} else {
					c18Put(cand, `def id: "`+cand[len(c18root):]+`";`)
				}
				if want == "" {
					want = cand[len(c18root):]
				}
			}
		}
	}
	meta := ""
	if withSearch {
		meta = ` {search: "` + sdir + `"}`
	}
	var src string
	if data {
		src = `import "` + name + `" as $d` + meta + `; [$d, $d::d]`
	} else {
		src = `import "` + name + `" as m` + meta + `; m::id`
	}
	out := c18RunSrc(src, NewModuleLoader(dirs))
	vassert(len(out) == 1, "one output")
	if len(out) != 1 {
		return
	}
	if want == "" {
		vassert(out[0] == "<compile error>", "a module that exists nowhere is a compile error")
		vreach("notfound")
		return
	}
	if data {
		arr, ok := out[0].([]any)
		vassert(ok && len(arr) == 2, "$d and $d::d are both bound")
		if ok && len(arr) == 2 {
			for _, x := range arr {
				vals, ok := x.([]any)
				vassert(ok && len(vals) == 1 && vals[0] == want, "the data module is the array of JSON values of the first existing candidate")
			}
		}
		vreach("data")
		return
	}
	vassert(out[0] == want, "the module is loaded from the first existing candidate in the documented order")
	vreach("found")
}

// H_C18_relative: a relative "search" in a module's import metadata is resolved against
// the importing file's directory; ~/.jq (a file) is auto-included, a directory is a path.
func H_C18_relative() {
	c18Setup()
	defer c18Cleanup()
	d1 := filepath.Join(c18root, "d1")
	c18Put(filepath.Join(d1, "m.jq"), `import "n" as n {search: "./sub"}; def id: n::id;`)
	inSub, inD1 := nondetBool(), nondetBool()
	if inSub {
		c18Put(filepath.Join(d1, "sub", "n.jq"), `def id: "sub";`)
	}
	if inD1 {
		c18Put(filepath.Join(d1, "n.jq"), `def id: "d1";`)
	}
	homeKind := nondetChoice(4)
	libInHome, decoy := false, false
	switch homeKind {
	case 3:
		// ~/.jq is a file that imports with a relative search path: relative to the home directory
		c18Put(filepath.Join(c18home, ".jq"), `import "helpers" as h {search: "./lib"}; def fromhome: h::hello;`)
		libInHome, decoy = nondetBool(), nondetBool()
		if libInHome {
			c18Put(filepath.Join(c18home, "lib", "helpers.jq"), `def hello: "home/lib";`)
		}
		if decoy {
			c18Put(filepath.Join(d1, "helpers.jq"), `def hello: "decoy";`)
		}
	case 1:
		c18Put(filepath.Join(c18home, ".jq"), `def fromhome: "home";`)
	case 2:
		c18Put(filepath.Join(c18home, ".jq"), c18dir)
		c18Put(filepath.Join(c18home, ".jq", "h.jq"), `def id: "homedir";`)
	}
	loader := NewModuleLoader([]string{"~/.jq", d1})
	out := c18RunSrc(`import "m" as m; m::id`, loader)
	switch {
	case homeKind == 3 && !libInHome && !decoy:
		vassert(len(out) == 1 && out[0] == "<compile error>", "a failing import in the auto-included ~/.jq fails every compilation")
	case inSub:
		vassert(len(out) == 1 && out[0] == "sub", "a relative search path is resolved against the importing file's directory and tried first")
	case inD1:
		vassert(len(out) == 1 && out[0] == "d1", "then the default search directories")
	default:
		vassert(len(out) == 1 && out[0] == "<compile error>", "otherwise the import fails")
	}
	out = c18RunSrc(`fromhome`, loader)
	if homeKind == 3 {
		switch {
		case libInHome:
			vassert(len(out) == 1 && out[0] == "home/lib", "a relative search path in ~/.jq is resolved against the home directory")
		case decoy:
			vassert(len(out) == 1 && out[0] == "decoy", "then the default search directories")
		default:
			vassert(len(out) == 1 && out[0] == "<compile error>", "otherwise the import in ~/.jq fails")
		}
		vreach("home-import")
		return
	}
	if homeKind == 1 {
		vassert(len(out) == 1 && out[0] == "home", "~/.jq as a file is auto-included")
	} else {
		vassert(len(out) == 1 && out[0] == "<compile error>", "nothing is auto-included unless ~/.jq is a file")
	}
	out = c18RunSrc(`import "h" as h; h::id`, loader)
	if homeKind == 2 {
		vassert(len(out) == 1 && out[0] == "homedir", "~/.jq as a directory is a search directory")
	} else {
		vassert(len(out) == 1 && out[0] == "<compile error>", "~/.jq is not searched unless it is a directory")
	}
	vreach("end")
}

// in-memory loader: the public extension point
type c18mem struct{ mods map[string]string }

func (l *c18mem) LoadModule(name string) (*Query, error) {
	src, ok := l.mods[name]
	if !ok {
		return nil, errors.New("module not found: " + name)
	}
	return Parse(src)
}

func (l *c18mem) LoadJSON(name string) (any, error) {
	if name == "d" {
		return []any{1, "two"}, nil
	}
	return nil, errors.New("module not found: " + name)
}

var c18Mods = map[string]string{
	"m":  `import "n" as b; include "i"; def f: 1; def g: b::h; def f(x): [x, f]; def k: inc;`,
	"n":  `def h: 2; def f: "n.f";`,
	"i":  `def inc: "inc"; def f: "i.f";`,
	"p":  `import "n" as b; def f: b::f;`,
	"q":  `import "m" as a; import "p" as c; def r: [a::f, c::f, a::g];`,
	"ar": `def f(a; b): 2; def f(a; b; c; d; e; g; h; i; j; k): 10; def f(a; b; c; d; e; g; h; i; j; k; l): 11; def f(a): 1; def e: 0; def f: 0;`,
	"md": `module {version: 1, name: "md"}; import "n" as b {search: "./"}; include "i"; def z: 1; def a(x): 2; def a: 3;`,
}

type c18case struct {
	src  string
	want string // JSON of the single output, or "!" for a compile error
}

var c18Cases = []c18case{
	{`import "m" as a; a::f`, `1`},
	{`import "m" as a; a::g`, `2`},
	{`import "m" as a; [a::f(3)]`, `[[3,1]]`},
	{`import "m" as a; a::k`, `"inc"`},
	{`import "m" as a; f`, `!`},
	{`import "m" as a; b::h`, `!`},
	{`import "m" as a; a::b::h`, `!`},
	{`import "m" as a; h`, `!`},
	{`import "m" as a; inc`, `!`},
	{`import "m" as a; a::inc`, `"inc"`},
	{`import "m" as a; a::h`, `!`},
	{`import "m" as a; def f: 9; [f, a::f]`, `[9,1]`},
	{`def f: 9; import "m" as a; [f, a::f]`, `!`},
	{`import "m" as a; import "n" as b; [a::g, b::h, b::f]`, `[2,2,"n.f"]`},
	{`import "m" as a; import "p" as c; [a::f, c::f]`, `[1,"n.f"]`},
	{`import "q" as q; q::r`, `[1,"n.f",2]`},
	{`import "q" as q; a::f`, `!`},
	{`import "m" as a; import "m" as a2; [a::f, a2::f]`, `[1,1]`},
	{`include "i"; [inc, f]`, `["inc","i.f"]`},
	{`include "i"; def f: 0; f`, `0`},
	{`include "n"; include "i"; f`, `"i.f"`},
	{`include "m"; [f, g, k, b::h]`, `[1,2,"inc",2]`},
	{`import "d" as $d; [$d, $d::d]`, `[[1,"two"],[1,"two"]]`},
	{`import "d" as $d; $d[1]`, `"two"`},
	{`import "d" as $d; d`, `!`},
	{`import "d" as $d; import "m" as a; [$d[0], a::f]`, `[1,1]`},
	{`import "zz" as z; 1`, `!`},
	{`import "m" as a; a::f(1;2)`, `!`},
	{`"md" | modulemeta | [.version, .name, (.deps | length), .deps[0].as, .deps[0].is_data, .deps[1].relpath, .defs]`, `[1,"md",2,"b",false,"i",["a/0","a/1","z/0"]]`},
	{`"m" | modulemeta | .defs`, `["f/0","f/1","g/0","k/0"]`},
	{`"ar" | modulemeta | .defs`, `["e/0","f/0","f/1","f/2","f/10","f/11"]`},
}

// H_C18_ns: visibility rules and include-as-paste, through the in-memory loader.
func H_C18_ns() {
	k := nondetChoice(len(c18Cases))
	c := c18Cases[k]
	vlabel("src", c.src)
	loader := &c18mem{c18Mods}
	out := c18RunSrc(c.src, loader)
	vassert(len(out) == 1, "one output")
	if len(out) != 1 {
		return
	}
	if c.want == "!" {
		vassert(out[0] == "<compile error>" || out[0] == "<parse error>", "a name that must not be visible is rejected at compile time")
		vreach("hidden")
	} else {
		_, isErr := out[0].(error)
		vassert(!isErr && out[0] != "<compile error>" && jsonMarshal(out[0]) == c.want, "imported names resolve to exactly the module's own top-level definitions")
		vreach("visible")
	}
	// include "x" is textual insertion of x
	if strings.HasPrefix(c.src, `include "`) {
		rest := c.src
		text := ""
		for strings.HasPrefix(rest, `include "`) {
			end := strings.Index(rest, `";`)
			text += c18Mods[rest[len(`include "`):end]] + " "
			rest = strings.TrimSpace(rest[end+2:])
		}
		// imports must come first in a program: hoist them in order
		pasted := c18RunSrc(c18Hoist(text)+" "+rest, loader)
		vassert(len(pasted) == 1 && hEqual(pasted[0], out[0]), "include is equivalent to inserting the module's text")
		vreach("pasted")
	}
}

// c18Hoist moves the import/include directives of a concatenation of module texts to the front.
func c18Hoist(text string) string {
	var heads, defs []string
	for _, stmt := range strings.SplitAfter(text, ";") {
		s := strings.TrimSpace(stmt)
		if strings.HasPrefix(s, "import ") || strings.HasPrefix(s, "include ") {
			heads = append(heads, s)
		} else if s != "" {
			defs = append(defs, s)
		}
	}
	return strings.Join(heads, " ") + " " + strings.Join(defs, " ")
}
