package gojq

import (
	"sync"
	"encoding/json"
	"math"
	"math/big"
)

// C03 — functional specifications of builtins against short reference functions
// (harness/ref/refjson.go supplies the UTF-8 primitives), on symbolic strings and
// arrays of symbolic small ints.

func c03Str() string  { return nondetString(nondetChoice(vparam("strlen", 3) + 1)) }
func c03Small() int   { return int(int8(nondetByte())) }
func c03IntArr() []any {
	n := nondetChoice(vparam("arrlen", 3) + 1)
	a := make([]any, n)
	for i := range a {
		a[i] = c03Small()
	}
	return a
}

func c03HasPrefix(s, t string) bool { return len(s) >= len(t) && s[:len(t)] == t }
func c03HasSuffix(s, t string) bool { return len(s) >= len(t) && s[len(s)-len(t):] == t }
func c03Find(s, t string) int {
	for i := 0; i+len(t) <= len(s); i++ {
		if s[i:i+len(t)] == t {
			return i
		}
	}
	return -1
}

// refRunes: Go's decoding (each invalid byte is U+FFFD) through the reference tables
func c03Runes(s string) []int {
	var rs []int
	for i := 0; i < len(s); {
		n := refRuneLen(s, i)
		switch n {
		case 0:
			rs = append(rs, 0xFFFD)
			n = 1
		case 1:
			rs = append(rs, int(s[i]))
		case 2:
			rs = append(rs, int(s[i]&0x1F)<<6|int(s[i+1]&0x3F))
		case 3:
			rs = append(rs, int(s[i]&0x0F)<<12|int(s[i+1]&0x3F)<<6|int(s[i+2]&0x3F))
		default:
			rs = append(rs, int(s[i]&0x07)<<18|int(s[i+1]&0x3F)<<12|int(s[i+2]&0x3F)<<6|int(s[i+3]&0x3F))
		}
		i += n
	}
	return rs
}

func H_C03_strings() {
	s, t := c03Str(), nondetString(nondetChoice(3))
	switch nondetChoice(9) {
	case 0:
		vassert(funcLength(s).(int) == refRuneCount(s), "length of a string is its number of code points")
		vassert(funcUtf8ByteLength(s).(int) == len(s), "utf8bytelength is the number of bytes")
	case 1:
		vassert(funcStartsWith(s, t).(bool) == c03HasPrefix(s, t), "startswith")
		vassert(funcEndsWith(s, t).(bool) == c03HasSuffix(s, t), "endswith")
	case 2:
		want := s
		if c03HasPrefix(s, t) {
			want = s[len(t):]
		}
		vassert(funcLtrimstr(s, t).(string) == want, "ltrimstr removes the prefix if present")
		want = s
		if c03HasSuffix(s, t) {
			want = s[:len(s)-len(t)]
		}
		vassert(funcRtrimstr(s, t).(string) == want, "rtrimstr removes the suffix if present")
	case 3:
		xs := funcExplode(s).([]any)
		rs := c03Runes(s)
		vassert(len(xs) == len(rs), "explode yields one number per code point")
		if len(xs) == len(rs) {
			for i := range xs {
				vassert(xs[i].(int) == rs[i], "explode yields the code points")
			}
		}
		vassert(funcImplode(xs).(string) == refSanitize(s), "implode of explode is the string (invalid bytes as U+FFFD)")
	case 4:
		lo, up := funcASCIIDowncase(s).(string), funcASCIIUpcase(s).(string)
		san := refSanitize(s)
		vassert(len(lo) == len(san) && len(up) == len(san), "ascii case mapping keeps the length")
		if len(lo) == len(san) && len(up) == len(san) {
			for i := 0; i < len(san); i++ {
				b := san[i]
				wl, wu := b, b
				if 'A' <= b && b <= 'Z' {
					wl = b + 32
				}
				if 'a' <= b && b <= 'z' {
					wu = b - 32
				}
				vassert(lo[i] == wl, "ascii_downcase maps only A-Z")
				vassert(up[i] == wu, "ascii_upcase maps only a-z")
			}
		}
	case 5:
		if len(t) == 0 {
			return
		}
		parts := funcSplit(s, t).([]any)
		// reference: cut at every non-overlapping occurrence, left to right
		var want []string
		rest := s
		for {
			i := c03Find(rest, t)
			if i < 0 {
				break
			}
			want = append(want, rest[:i])
			rest = rest[i+len(t):]
		}
		want = append(want, rest)
		vassert(len(parts) == len(want), "split cuts at every occurrence of the separator")
		if len(parts) == len(want) {
			for i := range parts {
				vassert(parts[i].(string) == want[i], "split pieces")
			}
		}
		vassert(funcJoin(parts, t).(string) == s, "join of split is the string")
	case 6:
		vassert(funcContains(s, t).(bool) == (c03Find(s, t) >= 0), "contains on strings is substring search")
		vassert(funcInside(t, s).(bool) == (c03Find(s, t) >= 0), "inside is contains with the arguments swapped")
	case 7:
		r := funcToBoolean(s)
		if s == "true" {
			vassert(r == true, `toboolean("true")`)
		} else if s == "false" {
			vassert(r == false, `toboolean("false")`)
		} else {
			_, isErr := r.(error)
			vassert(isErr, "toboolean rejects other strings")
		}
	default:
		// string repeat and string division
		n := nondetChoice(4)
		r := funcOpMul(nil, s, n)
		if n == 0 {
			vassert(r == nil || r == "", "string * 0")
		} else {
			want := ""
			for i := 0; i < n; i++ {
				want += s
			}
			vassert(r.(string) == want, "string * n repeats the string")
			vassert(funcOpMul(nil, n, s).(string) == want, "n * string repeats the string")
		}
	}
	vreach("end")
}

func c03RefFlatten(out, vs []any, depth int) []any {
	for _, v := range vs {
		if a, ok := v.([]any); ok && depth != 0 {
			out = c03RefFlatten(out, a, depth-1)
		} else {
			out = append(out, v)
		}
	}
	return out
}

func H_C03_arrays() {
	a := c03IntArr()
	snap := hDeepCopy(a).([]any)
	switch nondetChoice(10) {
	case 8:
		// contains / inside on arrays: every element of b is contained in SOME element of a
		// (several elements of b may be matched by the same element, so b may be longer)
		b := c03IntArr()
		want := true
		for _, y := range b {
			found := false
			for _, x := range snap {
				if x.(int) == y.(int) {
					found = true
				}
			}
			if !found {
				want = false
			}
		}
		vassert(funcContains(a, b).(bool) == want, "an array contains another iff each of its elements is contained in some element")
		vassert(funcInside(b, a).(bool) == want, "inside is contains with the arguments swapped")
		if len(a) > 0 {
			vassert(funcContains(a, []any{a[0], a[0], a[len(a)-1], a[0]}).(bool), "duplicates on the right are matched by the same element")
		}
		s := nondetString(2)
		vassert(funcContains([]any{s + "x"}, []any{s, "x", s[:1], s}).(bool), "several strings may be contained in the same element")
		vassert(funcContains(map[string]any{"k": []any{s + "x"}, "l": 1}, map[string]any{"k": []any{"x", s}}).(bool), "containment of objects descends into arrays")
	case 0:
		vassert(funcLength(a).(int) == len(a), "length of an array")
		r := funcReverse(a).([]any)
		vassert(len(r) == len(a), "reverse keeps the length")
		for i := range r {
			vassert(r[i].(int) == snap[len(a)-1-i].(int), "reverse")
		}
	case 1:
		sum := 0
		for _, x := range a {
			sum += x.(int)
		}
		r := funcAdd(a)
		if len(a) == 0 {
			vassert(r == nil, "add of an empty array is null")
		} else {
			vassert(r.(int) == sum, "add of numbers is their sum")
		}
	case 2:
		i := c03Small()
		r := funcHas(a, i).(bool)
		vassert(r == (0 <= i && i < len(a)), "has(index)")
		g := funcIndex2(nil, a, i)
		j := i
		if j < 0 {
			j += len(a)
		}
		if 0 <= j && j < len(a) {
			vassert(g.(int) == snap[j].(int), ".[i] counts negative indices from the end")
		} else {
			vassert(g == nil, ".[i] out of range is null")
		}
	case 3:
		// slices: null bounds, negative bounds, clamping
		var s, e any
		si, ei := c03Small(), c03Small()
		if nondetBool() {
			s = si
		}
		if nondetBool() {
			e = ei
		}
		r := funcSlice(nil, a, e, s).([]any)
		n := len(a)
		lo, hi := 0, n
		if s != nil {
			lo = si
			if lo < 0 {
				lo += n
			}
			if lo < 0 {
				lo = 0
			}
			if lo > n {
				lo = n
			}
		}
		if e != nil {
			hi = ei
			if hi < 0 {
				hi += n
			}
			if hi < lo {
				hi = lo
			}
			if hi > n {
				hi = n
			}
		}
		vassert(len(r) == hi-lo, ".[s:e] has the clamped length")
		if len(r) == hi-lo {
			for i := range r {
				vassert(r[i].(int) == snap[lo+i].(int), ".[s:e] elements")
			}
		}
	case 4:
		nested := []any{a, []any{c03Small(), []any{c03Small()}}, c03Small()}
		d := nondetChoice(4)
		var r any
		if d == 3 {
			r = funcFlatten(nested, nil)
			d = -1
		} else {
			r = funcFlatten(nested, []any{d})
		}
		want := c03RefFlatten([]any{}, nested, d)
		vassert(hIdentical(r, want), "flatten(depth)")
	case 5:
		x := c03Small()
		r := funcIndices(a, x).([]any)
		cnt := 0
		for i, y := range snap {
			if y.(int) == x {
				if cnt < len(r) {
					vassert(r[cnt].(int) == i, "indices lists the positions of equal elements")
				}
				cnt++
			}
		}
		vassert(cnt == len(r), "indices lists every position")
		fi, li := funcIndex(a, x), funcRindex(a, x)
		if cnt == 0 {
			vassert(fi == nil && li == nil, "index/rindex of an absent element is null")
		} else {
			vassert(fi.(int) == r[0].(int) && li.(int) == r[len(r)-1].(int), "index/rindex are the first/last of indices")
		}
	case 6:
		b := c03IntArr()
		r := funcOpAdd(nil, a, b).([]any)
		vassert(len(r) == len(a)+len(b), "array + array concatenates")
		// a left operand with spare capacity (as array constructors and decoders produce):
		// two sums of the same operand are independent values
		spare := make([]any, len(a), len(a)+4)
		copy(spare, a)
		x, y := c03Small(), c03Small()
		r1 := funcOpAdd(nil, spare, []any{x}).([]any)
		r2 := funcOpAdd(nil, spare, []any{y}).([]any)
		vassert(len(r1) == len(a)+1 && r1[len(a)].(int) == x, "a sum is not changed by a later sum of the same left operand")
		vassert(len(r2) == len(a)+1 && r2[len(a)].(int) == y, "array + array appends the right operand")
		// add/0 over arrays: the same independence for the sum of a list whose first element has spare capacity
		s1 := funcAdd([]any{spare, []any{x}})
		s2 := funcAdd([]any{spare, []any{y}, []any{x}})
		if a1, ok := s1.([]any); ok {
			vassert(len(a1) == len(a)+1 && a1[len(a)].(int) == x, "add of arrays is not changed by a later add that starts from the same array")
		} else {
			vassert(false, "add of arrays is an array")
		}
		if a2, ok := s2.([]any); ok {
			vassert(len(a2) == len(a)+2 && a2[len(a)].(int) == y && a2[len(a)+1].(int) == x, "add of arrays concatenates in order")
		}
		vassert(len(spare[:cap(spare)]) == len(a)+4 && spare[:cap(spare)][len(a)] == nil, "the first array's spare capacity is not written")
		vassert(funcOpAdd(nil, a, nil) != nil && hIdentical(funcOpAdd(nil, nil, a), snap), "null is the identity of +")
		vassert(funcContains(r, b).(bool), "a + b contains b")
	case 7:
		rows := []any{a, c03IntArr()}
		r := funcTranspose(rows).([]any)
		l := len(a)
		if m := len(rows[1].([]any)); m > l {
			l = m
		}
		vassert(len(r) == l, "transpose has as many rows as the longest input row")
		for j := range r {
			row := r[j].([]any)
			vassert(len(row) == 2, "transpose rows have one entry per input row")
			for i := 0; i < 2 && i < len(row); i++ {
				src := rows[i].([]any)
				if j < len(src) {
					vassert(row[i] == src[j], "transpose entry")
				} else {
					vassert(row[i] == nil, "transpose pads with null")
				}
			}
		}
	default:
		// range(from; upto; by) for small ints: the documented arithmetic progression
		from, upto, by := c03Small()/16, c03Small()/16, c03Small()/32
		if by == 0 {
			return
		}
		it := funcRange(nil, []any{from, upto, by}).(Iter)
		x := from
		for k := 0; k < 40; k++ {
			v, ok := it.Next()
			more := by > 0 && x < upto || by < 0 && x > upto
			vassert(ok == more, "range stops exactly at the bound")
			if !ok || !more {
				break
			}
			vassert(v.(int) == x, "range yields from, from+by, ...")
			x += by
		}
	}
	vassert(hIdentical(a, snap), "the input array is unchanged")
	vreach("end")
}

func H_C03_objects() {
	m := map[string]any{}
	for _, k := range []string{"a", "b"} {
		if nondetBool() {
			m[k] = c03Small()
		}
	}
	o := map[string]any{}
	for _, k := range []string{"b", "c"} {
		if nondetBool() {
			o[k] = c03Small()
		}
	}
	k := nondetString(1)
	_, have := m[k]
	vassert(funcHas(m, k).(bool) == have, "has(key)")
	vassert(funcLength(m).(int) == len(m), "length of an object")
	r := funcOpAdd(nil, m, o).(map[string]any)
	for _, key := range []string{"a", "b", "c"} {
		x, inR := r[key]
		y, inO := o[key]
		z, inM := m[key]
		vassert(inR == (inO || inM), "object + object has the union of the keys")
		if inO {
			vassert(x == y, "the right operand wins")
		} else if inM {
			vassert(x == z, "keys of the left operand are kept")
		}
	}
	// recursive merge
	l := map[string]any{"k": m, "x": 1}
	rr := map[string]any{"k": o, "x": map[string]any{"y": 2}}
	d := funcOpMul(nil, l, rr).(map[string]any)
	vassert(hIdentical(d["k"], funcOpAdd(nil, m, o)), "object * object merges nested objects (one level of plain values)")
	vassert(hIdentical(d["x"], map[string]any{"y": 2}), "a non-object is replaced by the right operand")
	vassert(funcContains(r, o).(bool), "a + b contains b")
	vreach("end")
}

// H_C03_dispatch: the arithmetic operators on ill-typed operand pairs raise errors,
// null is the identity of + only.
func H_C03_dispatch() {
	kinds := []any{nil, true, 1, 1.5, "s", []any{1}, map[string]any{"a": 1}}
	l, r := kinds[nondetChoice(len(kinds))], kinds[nondetChoice(len(kinds))]
	rank := func(v any) int { return c03Kind(v) }
	lk, rk := rank(l), rank(r)
	isErr := func(v any) bool { _, ok := v.(error); return ok }
	num := func(k int) bool { return k == 2 }
	// +
	okAdd := lk == 0 || rk == 0 || lk == rk && lk != 1 || num(lk) && num(rk)
	vassert(isErr(funcOpAdd(nil, l, r)) == !okAdd, "+ accepts null with anything, and equal kinds except booleans")
	// -
	okSub := num(lk) && num(rk) || lk == 4 && rk == 4
	vassert(isErr(funcOpSub(nil, l, r)) == !okSub, "- accepts numbers and arrays")
	// *
	okMul := num(lk) && num(rk) || lk == 3 && num(rk) || num(lk) && rk == 3 || lk == 5 && rk == 5
	vassert(isErr(funcOpMul(nil, l, r)) == !okMul, "* accepts numbers, string with number, objects")
	// /
	okDiv := num(lk) && num(rk) || lk == 3 && rk == 3
	vassert(isErr(funcOpDiv(nil, l, r)) == !okDiv, "/ accepts numbers and strings")
	// %
	okMod := num(lk) && num(rk)
	vassert(isErr(funcOpMod(nil, l, r)) == !okMod, "% accepts numbers")
	vreach("end")
}

func c03Kind(v any) int {
	switch v.(type) {
	case nil:
		return 0
	case bool:
		return 1
	case int, float64, *big.Int, json.Number:
		return 2
	case string:
		return 3
	case []any:
		return 4
	}
	return 5
}

// H_C03_repr: the value computed does not depend on the Go representation of a numeric
// operand: json.Number(lit) against parseNumber(lit), for integer literals of 1..25
// symbolic digits, through the operators and the numeric builtins.
func H_C03_repr() {
	// digit template: a concrete prefix (chosen around the int64 / uint64 boundaries and
	// beyond) followed by symbolic digits
	prefixes := []string{"", "1", "1234", "92233720368547758", "184467440737095516", "1234567890123456789012", "0", "00", "0184467440737095516", "0000000000123456789012345678", "0922337203685477580"}
	pre := prefixes[nondetChoice(len(prefixes))]
	nd := 1 + nondetChoice(vparam("symdigits", 2))
	digits := make([]byte, nd)
	for i := range digits {
		d := nondetByte()
		vassume('0' <= d)
		vassume(d <= '9')
		digits[i] = d
	}
	if pre == "" && nd > 1 {
		vassume(digits[0] != '0')
	}
	lit := pre + string(digits)
	if nondetBool() {
		lit = "-" + lit
	}
	jn := json.Number(lit)
	pn := parseNumber(jn)
	other := []any{3, -7, nil, 2.5}[nondetChoice(3+vparam("fp", 0))]
	same := func(a, b any) bool {
		_, e1 := a.(error)
		_, e2 := b.(error)
		if e1 || e2 {
			return e1 == e2
		}
		return TypeOf(a) == TypeOf(b) && hEqual(a, b)
	}
	cases := []int{0, 1, 2, 3, 4, 6, 7}
	if vparam("fp", 0) == 1 {
		cases = append(cases, 5)
	}
	switch cases[nondetChoice(len(cases))] {
	case 0:
		vassert(same(funcOpAdd(nil, jn, other), funcOpAdd(nil, pn, other)), "json.Number + x")
		vassert(same(funcOpAdd(nil, other, jn), funcOpAdd(nil, other, pn)), "x + json.Number")
	case 1:
		vassert(same(funcOpSub(nil, jn, other), funcOpSub(nil, pn, other)), "json.Number - x")
	case 2:
		vassert(same(funcOpNegate(jn), funcOpNegate(pn)), "- json.Number")
		vassert(same(funcAbs(jn), funcAbs(pn)), "abs(json.Number)")
		vassert(same(funcLength(jn), funcLength(pn)), "length(json.Number)")
	case 3:
		// the parsed value is the decimal value of the digits (leading zeros do not make it octal)
		want, _ := new(big.Int).SetString("0"+pre, 10)
		dv := 0
		for _, d := range digits {
			want.Mul(want, big.NewInt(10))
			dv = dv*10 + int(d-'0')
		}
		want.Add(want, bigOfInt(dv))
		if lit[0] == '-' {
			want.Neg(want)
		}
		switch p := pn.(type) {
		case int:
			vassert(bigEq(bigOfInt(p), want), "an integer literal denotes the decimal value of its digits")
		case *big.Int:
			vassert(bigEq(p, want), "an integer literal denotes the decimal value of its digits")
		default:
			vassert(false, "an integer literal is parsed to an integer")
		}
		vassert(Compare(jn, pn) == 0, "a json.Number equals its parsed value")
		vassert(Compare(jn, other) == Compare(pn, other), "comparison does not depend on the representation")
	case 4:
		ij, ok1 := toInt(jn)
		ip, ok2 := toInt(pn)
		vassert(ok1 == ok2 && ij == ip, "toInt does not depend on the representation")
		vassert(same(funcIndex2(nil, []any{1, 2, 3}, jn), funcIndex2(nil, []any{1, 2, 3}, pn)), ".[json.Number]")
		vassert(same(funcHas([]any{1, 2, 3}, jn), funcHas([]any{1, 2, 3}, pn)), "has(json.Number)")
	case 5:
		fj, ok1 := toFloat(jn)
		fp, ok2 := toFloat(pn)
		vassert(ok1 == ok2, "toFloat accepts every representation alike")
		if ok1 && ok2 {
			vassert(fj == fp || fj != fj && fp != fp, "toFloat does not depend on the representation")
		}
	case 6:
		// a passed-through literal keeps its spelling (-0 stays -0): compare values, not text
		ts := funcToString(jn).(string)
		vassert(ts == lit, "tostring of an untouched literal prints its digits")
		vassert(Compare(toNumber(ts), pn) == 0, "tostring denotes the same number in every representation")
	default:
		vassert(same(funcOpMod(nil, jn, 7), funcOpMod(nil, pn, 7)), "json.Number % 7")
		vassert(same(funcOpEq(nil, jn, pn), true), "json.Number == parsed value")
	}
	vreach("end")
}

// H_C03_repr_float: fraction/exponent literals (including ones beyond the double range,
// where all representations saturate alike) through builtins that take floats.
func H_C03_repr_float() {
	lits := []string{"2.5", "1.5", "1e2", "0.1e1", "-2.5E-3", "1e1000", "-1e1000", "1E400", "123456789012345678901234567890.5", "0.0", "-0.0", "1e-400", "9007199254740993", "1.7976931348623157e308", "1.8e308"}
	lit := lits[nondetChoice(len(lits))]
	vlabel("lit", lit)
	jn := json.Number(lit)
	pn := parseNumber(jn)
	same := func(a, b any) bool {
		_, e1 := a.(error)
		_, e2 := b.(error)
		if e1 || e2 {
			return e1 == e2
		}
		return TypeOf(a) == TypeOf(b) && hEqual(a, b)
	}
	names := []string{"floor", "sqrt", "fabs", "isinfinite", "isnan", "isnormal", "tostring", "tojson", "abs", "length", "_negate", "round", "significand", "trunc", "frexp", "modf", "exp10", "logb", "gamma", "ceil"}
	name := names[nondetChoice(len(names))]
	vlabel("func", name)
	f := internalFuncs[name].callback
	if name == "tostring" || name == "tojson" || name == "abs" || name == "length" || name == "_negate" {
		// pass-through or sign-only functions keep the spelling: compare as numbers
		a, b := f(jn, nil), f(pn, nil)
		if s, ok := a.(string); ok {
			// printing saturates infinities to the largest finite double, a literal keeps
			// its spelling: compare the denoted numbers after the same saturation
			sat := func(v any) any {
				if f, ok := v.(float64); ok {
					return math.Min(math.Max(f, -math.MaxFloat64), math.MaxFloat64)
				}
				return v
			}
			a = sat(toNumber(s))
			b = sat(toNumber(b.(string)))
		}
		vassert(same(a, b), "a numeric builtin does not depend on the representation of its input")
	} else {
		vassert(same(f(jn, nil), f(pn, nil)), "a float builtin accepts a json.Number exactly as it accepts the parsed number")
	}
	x := []any{2, 0.5}[nondetChoice(2)]
	for _, op := range []func(any, any, any) any{funcOpAdd, funcOpSub, funcOpMul, funcOpDiv, funcOpMod} {
		vassert(same(op(nil, jn, x), op(nil, pn, x)), "an arithmetic operator does not depend on the representation of its left operand")
		vassert(same(op(nil, x, jn), op(nil, x, pn)), "an arithmetic operator does not depend on the representation of its right operand")
	}
	vassert(Compare(jn, pn) == 0, "a json.Number equals its parsed value")
	vassert(same(funcFlatten([]any{[]any{1}}, []any{jn}), funcFlatten([]any{[]any{1}}, []any{pn})), "flatten(depth) accepts every representation")
	vassert(same(funcOpMul(nil, "ab", jn), funcOpMul(nil, "ab", pn)), "string repeat accepts every representation")
	arr := []any{1, 2, 3, 4}
	vassert(same(funcSlice(nil, arr, jn, nil), funcSlice(nil, arr, pn, nil)), "a slice end does not depend on the representation")
	vassert(same(funcSlice(nil, arr, nil, jn), funcSlice(nil, arr, nil, pn)), "a slice start does not depend on the representation")
	vassert(same(funcSlice(nil, "abcd", jn, nil), funcSlice(nil, "abcd", pn, nil)), "a string slice end does not depend on the representation")
	vassert(same(funcIndex2(nil, arr, jn), funcIndex2(nil, arr, pn)), "an index does not depend on the representation")
	vassert(same(funcSetpath(arr, []any{map[string]any{"start": 1, "end": jn}}, []any{9}), funcSetpath(arr, []any{map[string]any{"start": 1, "end": pn}}, []any{9})), "a slice path does not depend on the representation")
	vreach("end")
}

// H_C03_numconv: the float -> int conversions used by every index, slice bound, count
// and modulo are total and saturating for every double (FP theory, incl. NaN, +-Inf and
// exactly 2^63), and clampIndex stays inside its bounds.
func H_C03_numconv() {
	f := nondetFloat()
	i := floatToInt(f)
	switch {
	case f != f:
		vreach("nan")
	case f >= 9223372036854775808.0:
		vassert(i == math.MaxInt, "floatToInt saturates at MaxInt from 2^63 on")
		vreach("high")
	case f < -9223372036854775808.0:
		vassert(i == math.MinInt, "floatToInt saturates at MinInt below -2^63")
		vreach("low")
	default:
		vassert(float64(i) == math.Trunc(f), "floatToInt truncates towards zero inside the int64 range")
		vreach("inrange")
	}
	j, ok := toInt(f)
	vassert(ok && j == i, "toInt on a float is floatToInt")
	c, ok := toIntCeil(f)
	vassert(ok && c == floatToInt(math.Ceil(f)), "toIntCeil rounds up first")
	// slices and indices with a float bound stay inside the array for every double
	arr := []any{1, 2, 3}
	r, isArr := funcSlice(nil, arr, f, nil).([]any)
	vassert(isArr && len(r) <= 3, "a slice with any float end stays inside the array")
	if isArr && f >= 3 {
		vassert(len(r) == 3, "an end beyond the length takes the whole array")
	}
	g := funcIndex2(nil, arr, f)
	if f >= 3 || f <= -4 {
		vassert(g == nil, "an index outside the array is null")
	}
	mn, mx, x := nondetInt(), nondetInt(), nondetInt()
	vassume(0 <= mn)
	vassume(mn <= mx)
	vassume(mx <= 1<<40)
	k := clampIndex(x, mn, mx)
	vassert(mn <= k && k <= mx, "clampIndex stays within its bounds")
	vreach("end")
}

// H_C03_regexcache: a regex builtin's value is a function of (subject, pattern, flags):
// with one cache shared by all calls (as in a compiled query) every call yields what it
// yields with a cache of its own, whatever was compiled before — in particular for pairs
// whose pattern+flags texts coincide when glued together.
func H_C03_regexcache() {
	pairs := [][2]any{{"h", "i"}, {"hi", nil}, {"a", "g"}, {"ag", nil}, {"x", "gi"}, {"xg", "i"}, {"xgi", nil}, {"", "g"}, {"g", nil}, {"g", ""}, {".", "m"}, {".m", nil}}
	subj := []string{"Hi", "xag XG", "a\nb.m", "g"}[nondetChoice(4)]
	p1, p2 := pairs[nondetChoice(len(pairs))], pairs[nondetChoice(len(pairs))]
	testing := nondetBool()
	var shared sync.Map
	funcMatch(subj, p1[0], p1[1], testing, &shared)
	got := funcMatch(subj, p2[0], p2[1], testing, &shared)
	var own sync.Map
	want := funcMatch(subj, p2[0], p2[1], testing, &own)
	_, e1 := got.(error)
	_, e2 := want.(error)
	vassert(e1 == e2, "a regex call fails exactly when it fails with a cache of its own")
	if !e1 && !e2 {
		vassert(hIdentical(got, want), "a regex call yields what it yields with a cache of its own")
	}
	vreach("end")
}
