package gojq

import (
	"encoding/json"
	"math"
	"math/big"
	"sort"
)

// C11 — one total order. Compare against an independent reference comparator on
// shape triples with symbolic leaves, the order laws on Compare itself, and the
// consumers (sort, unique, group_by, min/max, bsearch, keys, array subtraction).

func c11Sgn(x int) int {
	if x < 0 {
		return -1
	}
	if x > 0 {
		return 1
	}
	return 0
}

func c11Rank(v any) int {
	switch v := v.(type) {
	case nil:
		return 0
	case bool:
		if v {
			return 2
		}
		return 1
	case int, float64, *big.Int:
		return 3
	case string:
		return 4
	case []any:
		return 5
	case map[string]any:
		return 6
	}
	return -1
}

// exact comparison of numbers: ints and bigs exactly, floats (NaN-free, |f| < 2^53)
// against integers through floor.
func c11NumCmp(a, b any) int {
	switch a := a.(type) {
	case int:
		switch b := b.(type) {
		case int:
			if a < b {
				return -1
			} else if a > b {
				return 1
			}
			return 0
		case float64:
			return c11IntFloat(a, b)
		case *big.Int:
			return bigOfInt(a).Cmp(b)
		}
	case float64:
		switch b := b.(type) {
		case int:
			return -c11IntFloat(b, a)
		case float64:
			if a < b {
				return -1
			} else if a > b {
				return 1
			}
			return 0
		case *big.Int:
			return -c11BigFloat(b, a)
		}
	case *big.Int:
		switch b := b.(type) {
		case int:
			return a.Cmp(bigOfInt(b))
		case float64:
			return c11BigFloat(a, b)
		case *big.Int:
			return a.Cmp(b)
		}
	}
	return 0
}

func c11IntFloat(l int, f float64) int {
	fl := math.Floor(f)
	li := int(fl) // exact: |f| < 2^53
	if l < li {
		return -1
	}
	if l > li {
		return 1
	}
	if fl == f {
		return 0
	}
	return -1
}

// bigs in the universe lie outside the int64 range, floats inside (-2^53, 2^53)
func c11BigFloat(b *big.Int, f float64) int { return b.Sign() }

func c11RefCompare(a, b any) int {
	ra, rb := c11Rank(a), c11Rank(b)
	if ra != rb {
		if ra < rb {
			return -1
		}
		return 1
	}
	switch a := a.(type) {
	case int, float64, *big.Int:
		return c11NumCmp(a, b)
	case string:
		bs := b.(string)
		for i := 0; i < len(a) && i < len(bs); i++ {
			if a[i] != bs[i] {
				if a[i] < bs[i] {
					return -1
				}
				return 1
			}
		}
		return c11Sgn(len(a) - len(bs))
	case []any:
		bs := b.([]any)
		for i := 0; i < len(a) && i < len(bs); i++ {
			if c := c11RefCompare(a[i], bs[i]); c != 0 {
				return c
			}
		}
		return c11Sgn(len(a) - len(bs))
	case map[string]any:
		bm := b.(map[string]any)
		ka, kb := c11Keys(a), c11Keys(bm)
		for i := 0; i < len(ka) && i < len(kb); i++ {
			if c := c11RefCompare(ka[i], kb[i]); c != 0 {
				return c
			}
		}
		if len(ka) != len(kb) {
			return c11Sgn(len(ka) - len(kb))
		}
		for _, k := range ka {
			if c := c11RefCompare(a[k], bm[k]); c != 0 {
				return c
			}
		}
	}
	return 0
}

// c11Keys: keys in ascending byte order (insertion sort, independent of package sort)
func c11Keys(m map[string]any) []string {
	var ks []string
	for k := range m {
		ks = append(ks, k)
	}
	for i := 1; i < len(ks); i++ {
		for j := i; j > 0 && ks[j] < ks[j-1]; j-- {
			ks[j], ks[j-1] = ks[j-1], ks[j]
		}
	}
	return ks
}

func c11Float() float64 {
	f := nondetFloat()
	vassume(f == f)
	vassume(-9007199254740992.0 < f)
	vassume(f < 9007199254740992.0)
	return f
}

// a big outside the int64 range (either sign)
func c11Big() *big.Int {
	b := nondetBig()
	vassume(!b.IsInt64())
	lim := new(big.Int).Lsh(big.NewInt(1), 100)
	vassume(bigLess(b, lim))
	vassume(bigLess(new(big.Int).Neg(lim), b))
	return b
}

func c11Leaf(kinds int) any {
	var ks []int
	for k := 0; k < 6; k++ {
		if kinds&(1<<k) != 0 {
			ks = append(ks, k)
		}
	}
	switch ks[nondetChoice(len(ks))] {
	case 0:
		return nil
	case 1:
		return nondetBool()
	case 2:
		return nondetInt()
	case 3:
		return c11Float()
	case 4:
		return c11Big()
	default:
		return nondetString(nondetChoice(vparam("strlen", 2) + 1))
	}
}

func c11Value(depth int) any {
	top := 6
	if depth > 0 {
		top = 8
	}
	switch k := nondetChoice(top); k {
	case 6:
		n := nondetChoice(vparam("width", 2) + 1)
		a := make([]any, n)
		for i := range a {
			a[i] = c11Elem(depth - 1)
		}
		return a
	case 7:
		m := map[string]any{}
		n := nondetChoice(vparam("width", 2) + 1)
		for i := 0; i < n; i++ {
			m[nondetString(1)] = c11Elem(depth - 1)
		}
		return m
	default:
		if k == 3 && vparam("floats", 1) == 0 {
			return nondetInt()
		}
		return c11Leaf(1 << k)
	}
}

// elements of containers: a reduced kind set keeps the triple universe tractable
func c11Elem(depth int) any {
	if depth > 0 && nondetBool() {
		return c11Value(depth)
	}
	return c11Leaf(vparam("elemkinds", 1<<2|1<<5|1<<0|1<<1))
}

// H_C11_pair: Compare equals the reference comparator; the six operators are its projections.
func H_C11_pair() {
	a, b := c11Value(vparam("depth", 1)), c11Value(vparam("depth", 1))
	c := Compare(a, b)
	vassert(c == -1 || c == 0 || c == 1, "Compare returns -1, 0 or 1")
	vassert(c == c11RefCompare(a, b), "Compare is the documented order (type rank, numbers by value, strings bytewise, arrays lexicographic, objects by sorted keys then values)")
	vassert(c11Sgn(Compare(b, a)) == -c, "antisymmetric")
	vassert(Compare(a, hDeepCopy(a)) == 0, "reflexive on a structurally equal copy")
	vassert(funcOpEq(nil, a, b).(bool) == (c == 0), "== is the projection")
	vassert(funcOpNe(nil, a, b).(bool) == (c != 0), "!= is the projection")
	vassert(funcOpLt(nil, a, b).(bool) == (c < 0), "< is the projection")
	vassert(funcOpLe(nil, a, b).(bool) == (c <= 0), "<= is the projection")
	vassert(funcOpGt(nil, a, b).(bool) == (c > 0), "> is the projection")
	vassert(funcOpGe(nil, a, b).(bool) == (c >= 0), ">= is the projection")
	vreach("end")
}

// H_C11_triple: transitivity and congruence on leaf triples (all kind triples).
func H_C11_triple() {
	d := vparam("tdepth", 0)
	a, b, c := c11Value(d), c11Value(d), c11Value(d)
	ab, bc, ac := Compare(a, b), Compare(b, c), Compare(a, c)
	if ab <= 0 && bc <= 0 {
		vassert(ac <= 0, "transitive: a <= b <= c implies a <= c")
		vreach("trans")
	}
	if ab == 0 {
		vassert(ac == bc, "equal values compare alike against a third")
		vreach("congr")
	}
	if ab < 0 && bc < 0 {
		vassert(ac < 0, "strict transitivity")
	}
	vreach("end")
}

// ---- consumers ----

func c11Array(n int) []any {
	a := make([]any, n)
	for i := range a {
		a[i] = c11Leaf(vparam("sortkinds", 1<<2|1<<5|1<<0))
	}
	return a
}

func c11Sorted(a []any) bool {
	for i := 1; i < len(a); i++ {
		if Compare(a[i-1], a[i]) > 0 {
			return false
		}
	}
	return true
}

// H_C11_sort: sort/unique/group_by/min/max/bsearch/array subtraction agree with Compare.
func H_C11_sort() {
	n := 1 + nondetChoice(vparam("len", 3))
	in := c11Array(n)
	snap := hDeepCopy(in).([]any)
	out, ok := funcSort(in).([]any)
	vassert(ok && len(out) == n, "sort returns an array of the same length")
	if !ok || len(out) != n {
		return
	}
	vassert(c11Sorted(out), "sort output is ordered by Compare")
	// permutation: every input element is used exactly once (matching by identity of position after a stable reference sort)
	ref := append([]any(nil), snap...)
	for i := 1; i < len(ref); i++ {
		for j := i; j > 0 && Compare(ref[j], ref[j-1]) < 0; j-- {
			ref[j], ref[j-1] = ref[j-1], ref[j]
		}
	}
	for i := range ref {
		vassert(hIdentical(out[i], ref[i]), "sort is the stable ordered permutation of its input")
	}
	vassert(hIdentical(in, snap), "sort leaves its input unchanged")
	// unique = sort without adjacent equals
	u, ok := funcUnique(in).([]any)
	vassert(ok, "unique returns an array")
	var wantU []any
	for i, x := range ref {
		if i == 0 || Compare(ref[i-1], x) != 0 {
			wantU = append(wantU, x)
		}
	}
	vassert(len(u) == len(wantU), "unique drops exactly the adjacent equals of the sorted input")
	if len(u) == len(wantU) {
		for i := range u {
			vassert(hIdentical(u[i], wantU[i]), "unique keeps the first of each run of equals")
		}
	}
	// min / max: first minimal, last maximal
	mn, mx := funcMin(in), funcMax(in)
	vassert(hIdentical(mn, ref[0]), "min is the first minimal element")
	vassert(Compare(mx, ref[len(ref)-1]) == 0, "max is a maximal element")
	// bsearch on the sorted array
	t := c11Leaf(vparam("sortkinds", 1<<2|1<<5|1<<0))
	r, ok := funcBsearch(out, t).(int)
	vassert(ok, "bsearch returns an int")
	if ok {
		if r >= 0 {
			vassert(r < len(out) && Compare(out[r], t) == 0, "bsearch returns the index of an equal element")
			vreach("found")
		} else {
			ins := -1 - r
			vassert(0 <= ins && ins <= len(out), "insertion point within the array")
			if 0 <= ins && ins <= len(out) {
				for i := 0; i < len(out); i++ {
					if i < ins {
						vassert(Compare(out[i], t) < 0, "elements before the insertion point are smaller")
					} else {
						vassert(Compare(out[i], t) > 0, "elements from the insertion point on are greater")
					}
				}
			}
			vreach("notfound")
		}
	}
	// array subtraction and indices use Compare == 0
	d, ok := funcOpSub(nil, in, []any{t}).([]any)
	vassert(ok, "array subtraction returns an array")
	cnt := 0
	for _, x := range snap {
		if Compare(x, t) != 0 {
			if cnt < len(d) {
				vassert(hIdentical(d[cnt], x), "array subtraction keeps the elements not equal to the subtrahend, in order")
			}
			cnt++
		}
	}
	vassert(cnt == len(d), "array subtraction removes exactly the equal elements")
	vreach("end")
}

// H_C11_by: sort_by / group_by / unique_by / min_by / max_by on [key, payload] rows:
// stability and grouping by key equality.
func H_C11_by() {
	n := 1 + nondetChoice(vparam("len", 3))
	vals := make([]any, n)
	keys := make([]any, n)
	for i := range vals {
		vals[i] = i // payload identifies the original position
		keys[i] = []any{c11Leaf(vparam("sortkinds", 1<<2|1<<5|1<<0))}
	}
	out, ok := funcSortBy(vals, keys).([]any)
	vassert(ok && len(out) == n, "sort_by returns an array of the same length")
	if !ok || len(out) != n {
		return
	}
	for i := 1; i < n; i++ {
		p, q := out[i-1].(int), out[i].(int)
		c := Compare(keys[p], keys[q])
		vassert(c <= 0, "sort_by orders by key")
		if c == 0 {
			vassert(p < q, "sort_by is stable")
		}
	}
	g, ok := funcGroupBy(vals, keys).([]any)
	vassert(ok, "group_by returns an array")
	// concatenation of the groups is the sort_by output; a new group starts exactly at a key change
	idx := 0
	for _, grp := range g {
		gs, ok := grp.([]any)
		vassert(ok && len(gs) > 0, "groups are non-empty arrays")
		if !ok {
			return
		}
		for j, x := range gs {
			vassert(idx < n && x.(int) == out[idx].(int), "groups concatenate to the sort_by output")
			if idx < n && idx > 0 {
				same := Compare(keys[out[idx-1].(int)], keys[out[idx].(int)]) == 0
				vassert(same == (j > 0), "a group is a maximal run of equal keys")
			}
			idx++
		}
	}
	vassert(idx == n, "every element is in exactly one group")
	ub, ok := funcUniqueBy(vals, keys).([]any)
	vassert(ok && len(ub) == len(g), "unique_by keeps one element per group")
	if ok && len(ub) == len(g) {
		for i := range ub {
			vassert(ub[i].(int) == g[i].([]any)[0].(int), "unique_by keeps the first element of each group")
		}
	}
	mn, mx := funcMinBy(vals, keys), funcMaxBy(vals, keys)
	vassert(mn.(int) == out[0].(int), "min_by is the first minimal element")
	vassert(Compare(keys[mx.(int)], keys[out[n-1].(int)]) == 0, "max_by has a maximal key")
	for i := 0; i < n; i++ {
		if Compare(keys[i], keys[mx.(int)]) == 0 {
			vassert(i <= mx.(int), "max_by is the last maximal element")
		}
	}
	vreach("end")
}

// H_C11_keys: keys, object iteration and both encoders enumerate keys in ascending order.
func H_C11_keys() {
	m := map[string]any{}
	n := nondetChoice(4)
	for i := 0; i < n; i++ {
		m[nondetString(nondetChoice(3))] = i
	}
	ks, ok := funcKeys(m).([]any)
	vassert(ok && len(ks) == len(m), "keys returns every key once")
	want := c11Keys(m)
	if ok && len(ks) == len(want) {
		for i := range ks {
			vassert(ks[i].(string) == want[i], "keys are in ascending byte order")
		}
	}
	ss := keys(m)
	vassert(sort.StringsAreSorted(ss) && len(ss) == len(m), "internal keys() is sorted")
	// object iteration order through the VM
	out := hRun(vmemo_compile(`[.[]]`), m, 2)
	if arr, ok := out[0].([]any); ok && len(arr) == len(want) {
		for i := range arr {
			vassert(arr[i].(int) == m[want[i]].(int), ".[] iterates an object in ascending key order")
		}
	} else {
		vassert(false, "[.[]] on an object yields an array of its values")
	}
	vreach("end")
}

// H_C11_intfloat: the order laws where ints of any size meet floats of magnitude below
// 2^53 (FP theory; discharged in a fresh solver process per obligation).
func H_C11_intfloat() {
	a, c := nondetInt(), nondetInt()
	f := c11Float()
	ab, ba := Compare(a, f), Compare(f, a)
	vassert(ab == c11IntFloat(a, f), "Compare(int, float) is the exact numeric order")
	vassert(c11Sgn(ab) == -c11Sgn(ba), "antisymmetric int/float")
	bc, ac := Compare(f, c), Compare(a, c)
	if ab <= 0 && bc <= 0 {
		vassert(ac <= 0, "transitive a <= f <= c")
	}
	if ab == 0 && bc == 0 {
		vassert(ac == 0, "equality is transitive through a float")
	}
	if ab < 0 && bc < 0 {
		vassert(ac < 0, "strict transitivity through a float")
	}
	vreach("end")
}

// H_C11_stable: stability beyond the size below which the stdlib's unstable sort is
// an insertion sort (12): arrays of 13..40 rows with concrete key patterns; a symbolic
// key value k keeps the solver in the loop (the pattern uses k and k+1).
func H_C11_stable() {
	sizes := []int{13, 20, 33, 40}
	n := sizes[nondetChoice(len(sizes))]
	k := hSmallInt()
	pat := nondetChoice(4)
	vals := make([]any, n)
	keys := make([]any, n)
	for i := range vals {
		vals[i] = i
		var key int
		switch pat {
		case 0:
			key = k
		case 1:
			key = k + i%2
		case 2:
			key = k + (i/5)%3
		default:
			key = k - i%3
		}
		keys[i] = []any{key}
	}
	for _, f := range []func(any, any) any{funcSortBy, funcGroupBy, funcUniqueBy} {
		_ = f
	}
	out, ok := funcSortBy(vals, keys).([]any)
	vassert(ok && len(out) == n, "sort_by returns an array of the same length")
	if !ok || len(out) != n {
		return
	}
	for i := 1; i < n; i++ {
		p, q := out[i-1].(int), out[i].(int)
		c := Compare(keys[p], keys[q])
		vassert(c <= 0, "sort_by orders by key")
		if c == 0 {
			vassert(p < q, "sort_by is stable on arrays longer than 12")
		}
	}
	g, ok := funcGroupBy(vals, keys).([]any)
	vassert(ok, "group_by returns an array")
	for _, grp := range g {
		gs := grp.([]any)
		for j := 1; j < len(gs); j++ {
			vassert(gs[j-1].(int) < gs[j].(int), "group_by keeps the input order inside a group")
		}
	}
	u, ok := funcUniqueBy(vals, keys).([]any)
	vassert(ok && len(u) == len(g), "unique_by keeps one element per group")
	if ok && len(u) == len(g) {
		for i := range u {
			vassert(u[i].(int) == g[i].([]any)[0].(int), "unique_by keeps the first element of each group")
		}
	}
	vreach("end")
}

// H_C11_numrepr: the consumers use the ORDER, not the spelling or the Go representation:
// equal numbers carried as int, float64 (incl. -0.0), *big.Int and json.Number literals
// ("1.0", "1e2", "-0") are equal for array subtraction, indices, unique, group_by, sort.
func H_C11_numrepr() {
	zero := []any{0, 0.0, -1 * 0.0, json.Number("0"), json.Number("-0"), json.Number("0.0"), json.Number("0e5")}
	one := []any{1, 1.0, json.Number("1"), json.Number("1.0"), json.Number("1.50e0"), 1.5, json.Number("10e-1")}
	hundred := []any{100, 100.0, json.Number("100"), json.Number("1e2"), json.Number("1.0E+2"), big.NewInt(100)}
	classes := [][]any{zero, one[:4], hundred, one[4:6]}
	ci, cj := nondetChoice(len(classes)), nondetChoice(len(classes))
	a := classes[ci][nondetChoice(len(classes[ci]))]
	b := classes[cj][nondetChoice(len(classes[cj]))]
	same := ci == cj
	vassert((Compare(a, b) == 0) == same, "numbers compare by value in every representation")
	// array subtraction
	d := funcOpSub(nil, []any{a, "x"}, []any{b}).([]any)
	if same {
		vassert(len(d) == 1 && d[0] == "x", "array subtraction removes an equal number in any representation")
	} else {
		vassert(len(d) == 2, "array subtraction keeps a different number")
	}
	// indices / index
	ix := funcIndices([]any{"x", a}, b).([]any)
	vassert((len(ix) == 1) == same, "indices finds an equal number in any representation")
	// unique / group_by / sort keep one class together
	u := funcUnique([]any{a, b}).([]any)
	if same {
		vassert(len(u) == 1, "unique merges equal numbers of different representations")
	} else {
		vassert(len(u) == 2, "unique keeps different numbers")
	}
	g := funcGroupBy([]any{"p", "q"}, []any{[]any{a}, []any{b}}).([]any)
	vassert((len(g) == 1) == same, "group_by groups by key equality in any representation")
	vassert(funcContains([]any{a}, []any{b}).(bool) == same || !same, "contains on numbers")
	bs := funcBsearch([]any{a}, b).(int)
	vassert((bs == 0) == same, "bsearch finds an equal number in any representation")
	vassert(funcOpEq(nil, a, b).(bool) == same, "== on numbers of different representations")
	vreach("end")
}

// H_C11_reprorder: the order across representations: a ladder of numbers in strictly
// increasing value, each rung in every representation that can carry it (int, float64,
// *big.Int, json.Number). Compare is the sign of the rung difference for every ordered
// pair of representations (big vs float and float vs big in particular), it is
// antisymmetric, and sort / min / max / the six operators follow it.
func H_C11_reprorder() {
	big20, _ := new(big.Int).SetString("100000000000000000000", 10)
	nbig20, _ := new(big.Int).SetString("-100000000000000000000", 10)
	big40, _ := new(big.Int).SetString("10000000000000000000000000000000000000000", 10)
	ladder := [][]any{
		{-1e30, json.Number("-1e30")},
		{nbig20, -1e20, json.Number("-100000000000000000000"), json.Number("-1e20")},
		{-1.5, json.Number("-1.5")},
		{-1, -1.0, json.Number("-1"), big.NewInt(-1)},
		{0, 0.0, json.Number("0"), big.NewInt(0), json.Number("-0")},
		{0.5, json.Number("0.5"), json.Number("5e-1")},
		{1, 1.0, json.Number("1.0"), big.NewInt(1)},
		{2.5, json.Number("2.5")},
		{100, 100.0, big.NewInt(100), json.Number("1e2")},
		{big20, 1e20, json.Number("100000000000000000000"), json.Number("1.0e20")},
		{1e30, json.Number("1e30")},
		{big40, 1e40, json.Number("1e40")},
		{json.Number("1e1000"), math.Inf(1)},
	}
	i, j := nondetChoice(len(ladder)), nondetChoice(len(ladder))
	a := ladder[i][nondetChoice(len(ladder[i]))]
	b := ladder[j][nondetChoice(len(ladder[j]))]
	want := 0
	if i < j {
		want = -1
	} else if i > j {
		want = 1
	}
	vassert(c11Sgn(Compare(a, b)) == want, "Compare orders numbers by value across representations")
	vassert(c11Sgn(Compare(b, a)) == -want, "Compare is antisymmetric across representations")
	vassert(funcOpLt(nil, a, b).(bool) == (want < 0) && funcOpGt(nil, a, b).(bool) == (want > 0) && funcOpLe(nil, a, b).(bool) == (want <= 0) && funcOpGe(nil, a, b).(bool) == (want >= 0), "the comparison operators follow the order across representations")
	s := funcSort([]any{a, b}).([]any)
	vassert(c11Sgn(Compare(s[0], s[1])) <= 0 && (want <= 0 || hIdentical(s[0], b)), "sort puts the smaller number first whatever its representation")
	mn, mx := funcMin([]any{a, b}), funcMax([]any{a, b})
	if want < 0 {
		vassert(hIdentical(mn, a) && hIdentical(mx, b), "min / max across representations")
	} else if want > 0 {
		vassert(hIdentical(mn, b) && hIdentical(mx, a), "min / max across representations")
	}
	vreach("end")
}
