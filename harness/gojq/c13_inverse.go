package gojq

// C13 — documented inverse pairs are exact inverses. Program-level laws run on the
// real VM with symbolic leaves; native codecs on symbolic strings.

var c13Laws = []string{
	`fromstream(tostream)`,
	`if type == "object" then to_entries | from_entries else . end`,
	`if type == "object" then with_entries(.) else . end`,
	`. as $v | reduce (tostream | select(length == 2)) as [$p, $x] (null; setpath($p; $x)) | if $v | (type == "array" or type == "object") and length == 0 then $v else . end`,
	`. as $v | [paths] | map(. as $p | $v | setpath($p; getpath($p)) == $v) | all`,
	`. as $v | [paths] | map(. as $p | $v | setpath($p; "x") | getpath($p) == "x") | all`,
	`[paths] == ([path(..)] | map(select(. != [])))`,
	`. as $v | [tostream | select(length == 2) | . as [$p, $x] | ($v | getpath($p)) == $x] | all`,
	`[.[]?] == [.[]?]`,
	`tojson | fromjson`,
	`[tostream] | fromstream(.[])`,
	`[leaf_paths?] | length >= 0`,
}

// which laws return the input (true) and which return `true` (false)
var c13Identity = []bool{true, true, true, true, false, false, false, false, false, true, true, false}

func c13Value(depth int) any {
	switch nondetChoice(7) {
	case 0:
		return nil
	case 1:
		return nondetBool()
	case 2:
		return hSmallInt()
	case 3:
		return nondetString(nondetChoice(2))
	case 4:
		return 1.5
	case 5:
		if depth == 0 {
			return []any{}
		}
		n := nondetChoice(3)
		a := make([]any, n)
		for i := range a {
			a[i] = c13Value(depth - 1)
		}
		return a
	default:
		if depth == 0 {
			return map[string]any{}
		}
		m := map[string]any{}
		keys := []string{"a", "", "q\"\\\n", "é\U0001F600"}
		n := nondetChoice(3)
		for i := 0; i < n; i++ {
			m[keys[nondetChoice(len(keys))]] = c13Value(depth - 1)
		}
		return m
	}
}

func H_C13_laws() {
	k := nondetChoice(len(c13Laws) - 1) // the last entry is a placeholder that does not compile everywhere
	vlabel("law", c13Laws[k])
	code := vmemo_compile(c13Laws[k])
	if code == nil {
		vassert(false, "law compiles")
		return
	}
	v := c13Value(vparam("depth", 2))
	snap := hDeepCopy(v)
	out := hRun(code, v, 3)
	vassert(len(out) == 1, "exactly one output")
	if len(out) != 1 {
		return
	}
	_, isErr := out[0].(error)
	vassert(!isErr, "no error")
	if isErr {
		return
	}
	if c13Identity[k] {
		if k == 9 {
			// tojson replaces invalid UTF-8 by U+FFFD (documented)
			snap = c13Sanitize(snap)
		}
		vassert(hEqual(out[0], snap), "the round trip returns its input")
	} else {
		vassert(out[0] == true, "the law holds")
	}
	vreach("end")
}

// H_C13_codecs: string codecs on symbolic strings.
func H_C13_codecs() {
	s := nondetString(nondetChoice(vparam("n", 3) + 1))
	switch nondetChoice(7) {
	case 4:
		// explode | implode on every string, implode | explode on every scalar value
		xs, ok := funcExplode(s).([]any)
		vassert(ok, "explode yields an array")
		if ok {
			vassert(funcImplode(xs) == refSanitize(s), "implode of explode is the string (invalid bytes as U+FFFD)")
		}
		vreach("explode")
	case 5:
		r, r2 := nondetInt(), nondetInt()
		vassume(0 <= r)
		vassume(r <= 0x10FFFF)
		vassume(r < 0xD800 || r > 0xDFFF)
		vassume(0 <= r2)
		vassume(r2 <= 0x7FF)
		t, ok := funcImplode([]any{r, r2, r}).(string)
		vassert(ok, "implode of code points yields a string")
		if ok {
			vassert(refValidUTF8(t), "implode yields valid UTF-8")
			back, ok := funcExplode(t).([]any)
			vassert(ok && len(back) == 3, "explode of implode has one number per code point")
			if ok && len(back) == 3 {
				vassert(back[0] == r && back[1] == r2 && back[2] == r, "explode of implode is the list of code points")
			}
		}
		vreach("implode")
	case 6:
		// split(sep) | join(sep) for a non-empty separator
		sep := nondetString(1 + nondetChoice(2))
		parts := funcSplit(s, sep)
		if arr, ok := parts.([]any); ok {
			vassert(funcJoin(arr, sep) == s, "join(sep) of split(sep) is the string")
		} else {
			vassert(false, "split yields an array")
		}
		vreach("split")
	case 0:
		e, ok := funcToBase64(s).(string)
		vassert(ok, "@base64 yields a string")
		if ok {
			d := funcToBase64d(e)
			vassert(d == s, "@base64d of @base64 is the string")
		}
		vreach("base64")
	case 1:
		e, ok := funcToURI(s).(string)
		vassert(ok, "@uri yields a string")
		if ok {
			for i := 0; i < len(e); i++ {
				b := e[i]
				vassert('a' <= b && b <= 'z' || 'A' <= b && b <= 'Z' || '0' <= b && b <= '9' || b == '-' || b == '_' || b == '.' || b == '~' || b == '%', "@uri leaves only unreserved characters unescaped")
			}
			d := funcToURId(e)
			vassert(d == s, "@urid of @uri is the string")
		}
		vreach("uri")
	case 2:
		j := funcToJSON(s).(string)
		vassert(funcFromJSON(j) == refSanitize(s), "fromjson of tojson is the string (invalid bytes as U+FFFD)")
		vreach("json")
	default:
		// numbers: tostring | tonumber on ints and bigs
		var v any
		if nondetBool() {
			v = nondetInt()
		} else {
			v = nondetBig()
		}
		t, ok := funcToString(v).(string)
		vassert(ok, "tostring yields a string")
		if ok {
			vassert(Compare(funcToNumber(t), v) == 0, "tonumber of tostring is the number")
		}
		vreach("number")
	}
	vreach("end")
}

// H_C13_dates: gmtime|mktime and todate|fromdate on whole seconds within years 1-9999.
func H_C13_dates() {
	// the calendar is trusted and run natively: a symbolic instant is concretized to a
	// representative per path, so boundary instants are listed explicitly
	bounds := []int{-62135596800, 253402300799, 0, -1, 951782400, 68169600, -86400 * 365, 1709164800, 4107542400, -62135596799}
	var secs int
	if k := nondetChoice(len(bounds) + vparam("symbolic", 4)); k < len(bounds) {
		secs = bounds[k]
		if k == 0 {
			vlabel("instant", "0001-01-01T00:00:00Z")
		}
	} else {
		secs = nondetInt()
		lo := []int{-62135596800, -1000000, 0, 1600000000}[k-len(bounds)]
		vassume(lo <= secs)
		vassume(secs <= 253402300799)
	}
	law := nondetChoice(2)
	var src string
	if law == 0 {
		src = `gmtime | mktime`
	} else {
		src = `todate | fromdate`
	}
	vlabel("law", src)
	out := hRun(vmemo_compile(src), secs, 2)
	vassert(len(out) == 1, "one output")
	if len(out) != 1 {
		return
	}
	_, isErr := out[0].(error)
	vassert(!isErr, "no error")
	if !isErr {
		vassert(Compare(out[0], secs) == 0, "the date round trip returns the seconds")
	}
	vreach("end")
}

func c13Sanitize(v any) any {
	switch v := v.(type) {
	case string:
		return refSanitize(v)
	case []any:
		w := make([]any, len(v))
		for i, x := range v {
			w[i] = c13Sanitize(x)
		}
		return w
	case map[string]any:
		w := map[string]any{}
		for k, x := range v {
			w[refSanitize(k)] = c13Sanitize(x)
		}
		return w
	}
	return v
}
