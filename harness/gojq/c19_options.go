package gojq

import (
	"errors"
	"strings"
)

// C19 — no ambient authority by default; each compile option grants exactly its own.

// H_C19_arity: WithFunction with symbolic 0 <= min <= max <= 30 and a second,
// overlapping registration: a call with n arguments compiles iff n lies in a
// registered range, and the newer registration wins where both apply.
func H_C19_arity() {
	min1, max1, min2, max2 := nondetInt(), nondetInt(), nondetInt(), nondetInt()
	vassume(0 <= min1)
	vassume(min1 <= max1)
	vassume(max1 <= 30)
	two := nondetBool()
	opts := []CompilerOption{WithFunction("f", min1, max1, func(any, []any) any { return 1 })}
	if two {
		vassume(0 <= min2)
		vassume(min2 <= max2)
		vassume(max2 <= 30)
		opts = append(opts, WithFunction("f", min2, max2, func(any, []any) any { return 2 }))
	}
	n := nondetChoice(32)
	src := "f"
	if n > 0 {
		src = "f(0" + strings.Repeat(";0", n-1) + ")"
	}
	q := vmemo_parse(src)
	code, err := Compile(q, opts...)
	in1 := min1 <= n && n <= max1
	in2 := two && min2 <= n && n <= max2
	vassert((err == nil) == (in1 || in2), "a call compiles exactly when its argument count lies in a registered range")
	if err != nil {
		vreach("rejected")
		return
	}
	out := hRun(code, nil, 2)
	vassert(len(out) == 1, "one output")
	if len(out) == 1 {
		want := 1
		if in2 {
			want = 2
		}
		vassert(out[0] == want, "the newer registration wins where both apply")
	}
	vreach("called")
}

// H_C19_vars: WithVariables binds the values passed to Run to the names in order; too
// few or too many values is an error value.
func H_C19_vars() {
	nNames := nondetChoice(4)
	names := []string{"$a", "$b", "$c"}[:nNames]
	code, err := Compile(vmemo_parse(`[`+strings.Join(names, ",")+`]`), WithVariables(names))
	vassert(err == nil, "compiles")
	if err != nil {
		return
	}
	nVals := nondetChoice(5)
	vals := make([]any, nVals)
	for i := range vals {
		vals[i] = hSmallInt()
	}
	out := hRun(code, nil, 2, vals...)
	vassert(len(out) == 1, "one output")
	if len(out) != 1 {
		return
	}
	if nVals != nNames {
		_, isErr := out[0].(error)
		vassert(isErr, "a wrong number of values is an error value")
		vreach("mismatch")
		return
	}
	arr, ok := out[0].([]any)
	vassert(ok && len(arr) == nNames, "every variable is bound")
	if ok && len(arr) == nNames {
		for i := range arr {
			vassert(arr[i] == vals[i], "values bind to the names in order")
		}
	}
	vreach("bound")
}

type c19iter struct {
	vals []any
	i    int
}

func (it *c19iter) Next() (any, bool) {
	if it.i >= len(it.vals) {
		return nil, false
	}
	it.i++
	return it.vals[it.i-1], true
}

// H_C19_input: input draws from the WithInputIter iterator one value per call in order;
// exhaustion is an error; inputs drains it.
func H_C19_input() {
	n := nondetChoice(4)
	vals := make([]any, n)
	for i := range vals {
		vals[i] = hSmallInt()
	}
	it := &c19iter{vals: vals}
	prog := nondetChoice(3)
	srcs := []string{`[input, input]`, `[inputs]`, `input as $x | [$x, input]`}
	code, err := Compile(vmemo_parse(srcs[prog]), WithInputIter(it))
	vassert(err == nil, "compiles with an input iterator")
	if err != nil {
		return
	}
	out := hRun(code, nil, 2)
	vassert(len(out) == 1, "one output")
	if len(out) != 1 {
		return
	}
	switch prog {
	case 0, 2:
		if n < 2 {
			_, isErr := out[0].(error)
			vassert(isErr, "input past the end is an error")
		} else {
			arr, ok := out[0].([]any)
			vassert(ok && len(arr) == 2 && arr[0] == vals[0] && arr[1] == vals[1], "input yields the values in order, one per call")
			vassert(it.i == 2, "input consumes exactly one value per call")
		}
	default:
		arr, ok := out[0].([]any)
		vassert(ok && len(arr) == n, "inputs yields every remaining value")
		if ok && len(arr) == n {
			for i := range arr {
				vassert(arr[i] == vals[i], "inputs keeps the order")
			}
		}
	}
	// without the option input is not compilable
	_, err = Compile(vmemo_parse(srcs[prog]))
	vassert(err != nil, "input is not available without WithInputIter")
	vreach("end")
}

// H_C19_env: env / $ENV show exactly the loader's pairs: split at the first '=', entries
// without '=' or with an empty key dropped, later duplicates win; empty without option.
func H_C19_env() {
	n := nondetChoice(4)
	kvs := make([]string, n)
	for i := range kvs {
		kvs[i] = nondetString(nondetChoice(vparam("n", 3) + 1))
	}
	which := []string{`env`, `$ENV`}[nondetChoice(2)]
	cur := kvs
	opt := WithEnvironLoader(func() []string { return cur })
	if nondetBool() {
		// history: the same option value was used before, for another compilation under
		// another environment (an option grants the capability, it does not freeze its result)
		cur = []string{"OLD=1", kvs0(kvs)}
		old, err := Compile(vmemo_parse(`[env, $ENV] | length`), opt)
		vassert(err == nil, "compiles")
		if err == nil {
			hRun(old, nil, 2)
		}
		cur = kvs
		vreach("reused-option")
	}
	code, err := Compile(vmemo_parse(which), opt)
	vassert(err == nil, "compiles")
	if err != nil {
		return
	}
	out := hRun(code, nil, 2)
	m, ok := out[0].(map[string]any)
	vassert(len(out) == 1 && ok, "env is an object")
	if !ok {
		return
	}
	want := map[string]string{}
	for _, kv := range kvs {
		i := 0
		for i < len(kv) && kv[i] != '=' {
			i++
		}
		if i < len(kv) && i > 0 {
			want[kv[:i]] = kv[i+1:]
		}
	}
	vassert(len(m) == len(want), "env has exactly the loader's well-formed entries")
	for k, v := range want {
		vassert(m[k] == v, "env maps each key to the text after the first '='")
	}
	out2 := hRun(vmemo_compile(which), nil, 2)
	m2, ok := out2[0].(map[string]any)
	vassert(ok && len(m2) == 0, "env is empty without WithEnvironLoader")
	vreach("end")
}

func kvs0(kvs []string) string {
	if len(kvs) > 0 {
		return kvs[0] + "x"
	}
	return "K=v"
}

// H_C19_ambient: without options, compiling and running any builtin name makes no call
// into os / syscall / net / ... (call monitor), except time.Now under `now`.
func H_C19_ambient() {
	names := vmemo_c19Builtins()
	k := nondetChoice(len(names))
	src := names[k]
	vlabel("prog", src)
	vambient(true)
	q, err := Parse(src)
	if err != nil {
		vambient(false)
		vreach("parse-error")
		return
	}
	code, err := Compile(q)
	if err != nil {
		vambient(false)
		vreach("compile-error")
		return
	}
	inputs := []any{nil, 1, "a b", []any{1, "x"}, map[string]any{"a": 1}}
	it := code.Run(inputs[nondetChoice(len(inputs))])
	for n := 0; n < 3; n++ {
		v, ok := it.Next()
		if !ok {
			break
		}
		if _, isErr := v.(error); isErr {
			break
		}
	}
	vambient(false)
	vreach("ran")
}

// every builtin name with arguments from a small pool, plus forms that name ambient resources
func vmemo_c19Builtins() []string {
	var out []string
	add := func(name string, n int) {
		if name == "now" || name == "localtime" || name == "strflocaltime" || name == "mktime" || name == "input" || name == "inputs" || name == "debug" || name == "stderr" || name == "input_line_number" || name == "halt" || name == "halt_error" || name == "repeat" || name == "range" || name == "while" || name == "until" || name == "recurse" || name == "limit" || name == "combinations" {
			return
		}
		src := name
		if n > 0 {
			args := []string{".", "1", `"a"`}
			src += "("
			for i := 0; i < n; i++ {
				if i > 0 {
					src += "; "
				}
				src += args[i%3]
			}
			src += ")"
		}
		out = append(out, src+"?")
	}
	var names []string
	for name := range internalFuncs {
		names = append(names, name)
	}
	for name := range builtinFuncDefs {
		names = append(names, name)
	}
	for i := 1; i < len(names); i++ {
		for j := i; j > 0 && names[j] < names[j-1]; j-- {
			names[j], names[j-1] = names[j-1], names[j]
		}
	}
	for i, name := range names {
		if i > 0 && names[i-1] == name || name[0] == '_' {
			continue
		}
		if fn, ok := internalFuncs[name]; ok {
			for n := 0; n <= 3; n++ {
				if fn.accept(n) {
					add(name, n)
				}
			}
		}
		for _, fd := range builtinFuncDefs[name] {
			add(name, len(fd.Args))
		}
	}
	// date functions that must not depend on the process time zone, with arguments that reach the conversion
	out = append(out, `0 | strftime("%H:%M %Z")`, `0 | todate`, `0 | date`, `0 | gmtime`, `0 | gmtime | mktime`, `0 | gmtime | todate`, `[2021,2,14,2,30,0,0,72] | strftime("%c")`, `"2021-01-01T00:00:00Z" | fromdate`,
		`"10:20" | strptime("%H:%M")`, `"2021-03-01T00:00:00Z" | strptime("%Y-%m-%dT%H:%M:%SZ") | mktime`, `0 | dateadd("seconds"; 1)?`, `0 | todateiso8601?`, `"2021-03-01T00:00:00Z" | fromdateiso8601?`, `0 | strftime("%s %j %a")`, `1e10 | gmtime | strftime("%Y")`)
	out = append(out, `env`, `$ENV`, `env.HOME`, `$ENV.PATH`, `import "a" as a; .`, `include "a"; .`, `input`, `[inputs]`, `$__prog_name`, `input_filename`, `get_search_list`, `"a" | modulemeta`, `$__loc__`, `@sh "x"`, `@json`)
	return out
}

// H_C19_custom: a Go function registered with WithFunction is interchangeable with a jq
// definition having the same input/output relation, in every calling context.
var c19Contexts = []string{
	`F`, `F | . + 1`, `1, F`, `[F, F]`, `F as $x | [$x, $x]`, `[.[]? | F]`, `try F catch "c"`, `(F // 9)`, `reduce (1, 2) as $i (0; . + (3 | F))`, `[foreach (1, 2) as $i (0; . + 1; F)]`,
	`first(F, 5)`, `[limit(1; F, F)]`, `[path(F)]`, `F |= 3`, `{a: F}`, `if F then 1 else 2 end`, `. as [$a] ?// $a | F`, `label $l | F, break $l`, `[F] | length`, `"\(F)"`,
	// a pass-through function with an argument, in path contexts
	`path(P(.a))`, `[path(.. | P(.a?))]`, `P(.a) |= 3`, `(P(.a) | .a) |= 3`, `path(P(.a) | .a)`, `path(.a | P(.))`, `[path(.[]? | P(.))]`, `del(P(1) | .a)`, `[path(P(1, 2))]`, `try path(P(error)) catch "c"`,
	`[paths(P(.a?))]`, `P(.a?) as $x | [$x, .]`, `[P(.[]?)]`, `path(P(.a?) | P(.b?))`, `to_entries? | P(.[0])`, `[.[]? | P(.) |= 5]`, `path(first(P(.a?)))`, `[P(.a?, .b?)]`,
	// an iterator function that keeps its argument slice
	`[E(1; 2; 3) | . + 10]`, `[E(.; 1; 2)]`, `[E(1; 2; 3) | G(.; .)]`, `[E(1; 2; 3) as $x | E(4; 5; 6) | [$x, .]]`, `[limit(2; E(1; 2; 3))]`, `[E(1; 2; 3) | P(7)]`, `first(E(1; 2; 3) | select(. > 1))`, `[E(1, 2; 3; 4)]`,
	// a custom function whose name is an internal one at another arity
	`path(getpath)`, `[path(getpath(1; 2))]`, `getpath(1; 2)`, `getpath | getpath(["a"])?`, `path(getpath | .a?)`, `[paths] | getpath`, `getpath(["a"])? | getpath`,
	`G(1; 2)`, `[G(1, 2; 3, 4)]`, `[G(.; .)]`, `try G(error; 1) catch "c"`, `[path(G(1; 2))]`, `[G(empty; 1)]`, `G(1; 2) as $x | $x`, `[.[]? | G(.; 1)]`, `first(G((1,2); 3))`, `[limit(3; G((1,2); (3,4)))]`,
}

// F: identity-plus-one on numbers, error on strings, the input otherwise.  G(a; b): [a, b].
func c19GoF(v any, _ []any) any {
	switch v := v.(type) {
	case int:
		return v + 1
	case string:
		return errors.New("f: string")
	}
	return v
}

func c19GoG(_ any, args []any) any { return []any{args[0], args[1]} }
func c19GoP(v any, _ []any) any    { return v }
func c19GoE(_ any, xs []any) Iter  { return NewIter(xs...) }
func c19GoGetpath(v any, args []any) any {
	if len(args) == 0 {
		return v
	}
	return []any{args[0], args[1]}
}

const c19Defs = `def P(a): a as $a | .; def E(a; b; c): c as $c | b as $b | a as $a | ($a, $b, $c); def getpath: .; def getpath(a; b): b as $b | a as $a | [$a, $b]; ` + `def F: if type == "number" then . + 1 elif type == "string" then error("f: string") else . end; def G(a; b): b as $b | a as $a | [$a, $b]; `

func H_C19_custom() {
	k := nondetChoice(len(c19Contexts))
	ctx := c19Contexts[k]
	vlabel("context", ctx)
	goCode, err1 := Compile(vmemo_parse(ctx), WithFunction("F", 0, 0, c19GoF), WithFunction("G", 2, 2, c19GoG), WithFunction("P", 1, 1, c19GoP),
		WithIterFunction("E", 3, 3, c19GoE), WithFunction("getpath", 0, 0, c19GoGetpath), WithFunction("getpath", 2, 2, c19GoGetpath))
	jqCode := vmemo_compile(c19Defs + ctx)
	vassert((err1 == nil) == (jqCode != nil), "compiles with the Go function exactly when it compiles with the definition")
	if err1 != nil || jqCode == nil {
		return
	}
	inputs := []any{nil, hSmallInt(), "s", []any{hSmallInt(), "t"}, map[string]any{"a": hSmallInt()}}
	input := inputs[nondetChoice(len(inputs))]
	a := hRun(goCode, input, 6)
	b := hRun(jqCode, hDeepCopy(input), 6)
	vassert(len(a) == len(b), "same number of outputs")
	if len(a) != len(b) {
		return
	}
	for i := range a {
		e1, isE1 := a[i].(error)
		e2, isE2 := b[i].(error)
		vassert(isE1 == isE2, "same error-ness")
		if isE1 && isE2 {
			_ = e1
			_ = e2
			continue
		}
		if !isE1 && !isE2 {
			vassert(hEqual(a[i], b[i]), "same value in every calling context")
		}
	}
	vreach("end")
}
