package gojq

import (
	"math"
	"math/big"
)

// C12 (library side) — every emitted value serialises to valid JSON that reads back
// equal. The reference reader is harness/ref/refjson.go.

// H_C12_string: jsonMarshal / Marshal of an arbitrary byte string of length n.
func H_C12_string() {
	n := vparam("n", 2)
	s := nondetString(n)
	out := jsonMarshal(s)
	dec, end, ok := refDecodeJSONString(out, 0)
	vassert(ok, "output is a well-formed JSON string literal in valid UTF-8")
	if !ok {
		return
	}
	vassert(end == len(out), "nothing follows the closing quote")
	vassert(dec == refSanitize(s), "decodes to the input with each invalid byte replaced by U+FFFD")
	bs, err := Marshal(s)
	vassert(err == nil && string(bs) == out, "Marshal and jsonMarshal agree")
	vreach("end")
}

// refSameValue: value read back by the reference reader equals the emitted value
// (numbers are compared through their literal by the caller-provided expectation).
func c12Same(v any, r any) bool {
	switch v := v.(type) {
	case nil:
		return r == nil
	case bool:
		b, ok := r.(bool)
		return ok && b == v
	case string:
		s, ok := r.(string)
		return ok && s == refSanitize(v)
	case int, float64, *big.Int:
		n, ok := r.(refNum)
		if !ok {
			// NaN is written as null
			if f, isF := v.(float64); isF && f != f {
				return r == nil
			}
			return false
		}
		return c12NumberDenotes(v, string(n))
	case []any:
		a, ok := r.([]any)
		if !ok || len(a) != len(v) {
			return false
		}
		for i := range v {
			if !c12Same(v[i], a[i]) {
				return false
			}
		}
		return true
	case map[string]any:
		m, ok := r.(map[string]any)
		if !ok {
			return false
		}
		// keys are compared after sanitising; distinct keys may collide only if invalid
		cnt := 0
		for k, x := range v {
			y, ok := m[refSanitize(k)]
			if !ok || !c12Same(x, y) {
				return false
			}
			cnt++
		}
		return cnt == len(m)
	}
	return false
}

// c12NumberDenotes: the literal text denotes the number v (exactly for ints and
// bigs; for floats through the package's own parser on a concrete literal).
func c12NumberDenotes(v any, lit string) bool {
	switch v := v.(type) {
	case int:
		b, ok := new(big.Int).SetString(lit, 10)
		return ok && b.IsInt64() && b.Int64() == int64(v)
	case *big.Int:
		b, ok := new(big.Int).SetString(lit, 10)
		return ok && b.Cmp(v) == 0
	case float64:
		w := toNumber(lit)
		f := math.Min(math.Max(v, -math.MaxFloat64), math.MaxFloat64)
		switch w := w.(type) {
		case int:
			return float64(w) == f
		case float64:
			return w == f
		case *big.Int:
			return bigToFloat(w) == f
		}
	}
	return false
}

var c12Numbers = []any{
	0, 1, -1, 42, math.MaxInt, math.MinInt, 0.5, -0.0, 1e-7, 1e-6, 1.5e-9, 1e21, 1e20, 123456789012345678.0, math.MaxFloat64, math.SmallestNonzeroFloat64,
	math.Inf(1), math.Inf(-1), math.NaN(), 1e-10, 2.5e-09, 1.7976931348623157e+308, 4.9e-324, 1e+100, -1e-100, 0.1, 100.0, 1e6, 3.0,
}

func c12Value(depth int) any {
	switch nondetChoice(7) {
	case 0:
		return nil
	case 1:
		return nondetBool()
	case 2:
		return c12Numbers[nondetChoice(len(c12Numbers))]
	case 3:
		return nondetString(nondetChoice(vparam("strlen", 1) + 1))
	case 4:
		b, _ := new(big.Int).SetString("123456789012345678901234567890", 10)
		if nondetBool() {
			b.Neg(b)
		}
		return b
	case 5:
		if depth == 0 {
			return []any{}
		}
		n := nondetChoice(3)
		a := make([]any, n)
		for i := range a {
			a[i] = c12Value(depth - 1)
		}
		return a
	default:
		if depth == 0 {
			return map[string]any{}
		}
		m := map[string]any{}
		n := nondetChoice(3)
		for i := 0; i < n; i++ {
			var k string
			if i == 0 {
				k = "k" + nondetString(1)
			} else {
				k = "a\"b"
			}
			m[k] = c12Value(depth - 1)
		}
		return m
	}
}

// H_C12_value: Marshal / jsonMarshal of values of bounded shape read back equal.
func H_C12_value() {
	v := c12Value(vparam("depth", 1))
	bs, err := Marshal(v)
	vassert(err == nil, "Marshal succeeds")
	out := string(bs)
	vassert(out == jsonMarshal(v), "Marshal and jsonMarshal (tojson, @json, tostring) agree")
	r, ok := refParseJSON(out)
	vassert(ok, "output is one well-formed JSON text")
	if ok {
		vassert(c12Same(v, r), "the text reads back as the emitted value")
	}
	// tojson / tostring / @json / @text go through the same encoder
	vassert(funcToJSON(v).(string) == out, "tojson is the encoder output")
	if _, isStr := v.(string); !isStr {
		vassert(funcToString(v).(string) == out, "tostring of a non-string is the encoder output")
	}
	vreach("end")
}
