package gojq

// Translator validation: every corpus case is executed without any symbolic value, in
// gosym and natively; the two transcripts must be identical. A difference is an
// interpreter/model infidelity (reported by `./check --selftest`), never a violation.

func selftestTranscript(k int) string {
	c := corpusCases[k]
	q, err := Parse(c.query)
	if err != nil {
		return "parse error"
	}
	code, err := Compile(q)
	if err != nil {
		return "compile error: " + err.Error()
	}
	out := ""
	for _, input := range c.inputs {
		it := code.Run(input)
		for n := 0; n < 12; n++ {
			v, ok := it.Next()
			if !ok {
				break
			}
			if e, isErr := v.(error); isErr {
				out += "E:" + e.Error() + "\n"
				continue
			}
			out += jsonMarshal(v) + "\n"
		}
		out += "--\n"
	}
	return out
}

func H_SELF_corpus() {
	k := nondetChoice(len(corpusCases))
	vlabel("case", corpusCases[k].name)
	vlabel("transcript", selftestTranscript(k))
	vreach("end")
}
