package gojq

import "context"

// C20 — iteration and tail recursion run in bounded interpreter space. The
// footprint of the VM (pending forks, live stack / scope-stack / path-stack
// positions, variable-frame offset) is read directly from the *env after every
// output (generators) or at every loop turn through a Go function `probe/0`
// registered with WithFunction (loops that run inside one Next call). The trip
// count n is symbolic.

type c20fp [5]int

func c20Footprint(e *env) c20fp {
	return c20fp{len(e.forks), e.stack.index, e.scopes.index, e.paths.index, e.offset}
}

// generator forms: footprint observed after each of n outputs
var c20Gens = []string{
	`range($n)`, `range(infinite)`, `repeat(1)`, `0 | while(true; . + 1)`, `0 | recurse(. + 1)`, `limit($n; repeat(1))`, `foreach range($n) as $i (0; . + $i)`,
	`def f: ., (. + 1 | f); 0 | f`, `def f: 1, f; f`, `range($n) | select(. >= 0)`, `first(range($n; infinite))`, `repeat(1) | select(true)`, `0 | recurse(. + 1; . >= 0)`,
	`foreach repeat(1) as $x (0; . + $x; .)`, `limit($n; range(infinite))`, `range(0; $n; 1)`, `label $l | range($n)`, `def f: (1, 2), f; f`, `inputs`, `range($n) as $x | $x`,
	`path(range($n))?`, `.[] , repeat(2)`, `[1,2] | repeat(.[0])`, `def f: def g: 1, g; g; f`, `try repeat(1) catch .`, `repeat(1)?`, `(repeat(1) | . + 1)`,
	`def f: if true then 1, f else empty end; f`, `def f: 1, (2 | f); f`, `1 | def f: ., f; f`, `def f: . as $x | $x, f; 0 | f`,
}

// loop forms: footprint observed at every turn by probe; the loop runs inside Next
var c20Loops = []string{
	`reduce range($n) as $i (0; probe | . + 1)`, `0 | until(. >= $n; probe | . + 1)`, `last(range($n) | probe)`, `first(range($n) | probe | select(. >= $n - 1))`,
	`def f: probe | if . < $n then . + 1 | f else . end; 0 | f`, `def f: probe | . as $x | if $x < $n then $x + 1 | f else $x end; 0 | f`,
	`def f: probe | (select(. >= $n)) // (. + 1 | f); 0 | f`, `def f: probe | if . >= $n then . else empty, (. + 1 | f) end; 0 | f`,
	`def f: probe | if . < 0 then . elif . < $n then . + 1 | f else . end; 0 | f`, `[foreach range($n) as $i (0; probe | . + 1)] | length`, `isempty(range($n) | probe | empty)`,
	`[limit($n; repeat(0 | probe))] | length`, `0 | [while(. < $n; probe | . + 1)] | length`, `reduce range($n) as $i (0; probe) | [recurse(if . < 3 then . + 1 else empty end)] | length`,
	`def f: probe | if . < $n then . + 1 | f else . end; def g: f; 0 | g`, `def f: def g: probe | if . < $n then . + 1 | g else . end; g; 0 | f`,
	`any(range($n); probe | false)`, `all(range($n); probe | true)`, `reduce (range($n) | probe) as $i (0; . + 1)`, `0 | until(. >= $n; probe | . + 1) | until(. <= 0; probe | . - 1)`,
	`def f: probe | if . < $n then (. + 1 | f) else . end; 0 | f | f`, `nth($n; range(infinite) | probe)?`,
	`def f: def g: probe | if . < $n then . + 1 | f else . end; g; 0 | f`,
}

type c20inputs struct{ i int }

func (it *c20inputs) Next() (any, bool) { it.i++; return it.i, true }

func c20Check(fps []c20fp, warm int, what string) {
	var base c20fp
	for i := 0; i < warm && i < len(fps); i++ {
		for c := range base {
			if fps[i][c] > base[c] {
				base[c] = fps[i][c]
			}
		}
	}
	names := [5]string{"pending forks", "data stack", "scope stack", "path stack", "variable frames"}
	for i := warm; i < len(fps); i++ {
		for c := range base {
			vassert(fps[i][c] <= base[c], what+": "+names[c]+" do not grow with the number of iterations")
		}
	}
}

func c20N() int {
	n := nondetInt()
	vassume(0 <= n)
	vassume(n <= vparam("N", 24))
	return n
}

func vmemo_c20Gen(k int) *Code {
	q, err := Parse(c20Gens[k])
	if err != nil {
		return nil
	}
	code, err := Compile(q, WithVariables([]string{"$n"}), WithInputIter(&c20inputs{}))
	if err != nil {
		return nil
	}
	return code
}

func H_C20_generators() {
	k := nondetChoice(len(c20Gens))
	vlabel("prog", c20Gens[k])
	code := vmemo_c20Gen(k)
	if code == nil {
		vassert(false, "program compiles")
		return
	}
	n := c20N()
	e := newEnv(context.Background())
	it := e.execute(code, []any{1, 2}, n)
	var fps []c20fp
	for i := 0; i < n; i++ {
		v, ok := it.Next()
		if !ok {
			break
		}
		if _, isErr := v.(error); isErr {
			break
		}
		fps = append(fps, c20Footprint(e))
	}
	c20Check(fps, vparam("warm", 4), "generator")
	if len(fps) > vparam("warm", 4) {
		vreach("observed")
	}
	vreach("end")
}

// tail-recursive definitions (every turn calls probe) x calling contexts: the caller's
// frame may be pinned by a pending fork (array construction, comma, try, //, first, ...)
var c20RecDefs = []string{
	`def f: probe | if . < $n then . + 1 | f else . end;`,
	`def f: probe | . as $x | if $x < $n then $x + 1 | f else $x end;`,
	`def f: probe | . as $x | [$x] as [$y] | if $y < $n then $y + 1 | f else $y end;`,
	`def f: probe | 1 as $one | if . < $n then . + $one | f else . end;`,
	`def f: probe | if . < $n then . + 1 | f elif . < 0 then empty else . end;`,
	`def f: probe | (select(. >= $n)) // (. + 1 | f);`,
	`def f: probe | if . >= $n then . else empty, (. + 1 | f) end;`,
}

var c20RecUses = []string{
	`0 | f`, `[0 | f]`, `(0 | f), 9`, `try (0 | f) catch .`, `(0 | f) // 1`, `first(0 | f)`, `0 | f as $r | $r`, `[1, 2] | map(0 | f)`, `reduce (0 | f) as $r (0; . + $r)`,
	`label $l | 0 | f`, `{a: (0 | f)}`, `(0 | f)?`, `0 | [f, f]`, `1 as $v | 0 | f`, `def g: 0 | f; [g]`, `[limit(1; 0 | f)]`, `[0 | f] | length`, `if (0 | f) then 1 else 2 end`, `"\(0 | f)"`,
}

func vmemo_c20Rec(d, u int) string { return c20RecDefs[d] + " " + c20RecUses[u] }

// H_C20_rec: the product of tail-recursive definitions and calling contexts.
func H_C20_rec() {
	src := vmemo_c20Rec(nondetChoice(len(c20RecDefs)), nondetChoice(len(c20RecUses)))
	vlabel("prog", src)
	c20Loop(src)
}

func H_C20_loops() {
	k := nondetChoice(len(c20Loops))
	vlabel("prog", c20Loops[k])
	if k == len(c20Loops)-1 {
		vlabel("class", "tail call to an enclosing definition")
	}
	c20Loop(c20Loops[k])
}

func c20Loop(src string) {
	q := vmemo_parse(src)
	if q == nil {
		vassert(false, "program parses")
		return
	}
	var e *env
	var fps []c20fp
	code, err := Compile(q, WithVariables([]string{"$n"}), WithFunction("probe", 0, 0, func(v any, _ []any) any {
		fps = append(fps, c20Footprint(e))
		return v
	}))
	if err != nil {
		vassert(false, "program compiles")
		return
	}
	n := c20N()
	e = newEnv(context.Background())
	it := e.execute(code, nil, n)
	for i := 0; i < 3; i++ {
		v, ok := it.Next()
		if !ok {
			break
		}
		if _, isErr := v.(error); isErr {
			break
		}
	}
	c20Check(fps, vparam("warm", 4), "loop")
	if len(fps) > vparam("warm", 4) {
		vreach("observed")
	}
	vreach("end")
}
