package gojq

import (
	"encoding/json"
	"math"
	"math/big"
)

// C10 — exact integer arithmetic. All operands are unconstrained symbolic
// 64-bit ints or unbounded symbolic big integers (Int rendering: a *big.Int is
// a mathematical integer), the oracle is the math/big model.

// exactInt asserts that got is an int or a *big.Int denoting exactly want.
func c10Exact(got any, want *big.Int, what string) {
	switch g := got.(type) {
	case int:
		vassert(bigEq(bigOfInt(g), want), what+": int result is the exact value")
		vreach("int")
	case *big.Int:
		vassert(bigEq(g, want), what+": big result is the exact value")
		vreach("big")
	default:
		vassert(false, what+": result is neither int nor *big.Int")
	}
}

func H_C10_add_int() {
	l, r := nondetInt(), nondetInt()
	c10Exact(funcOpAdd(nil, l, r), new(big.Int).Add(bigOfInt(l), bigOfInt(r)), "int+int")
}

func H_C10_sub_int() {
	l, r := nondetInt(), nondetInt()
	c10Exact(funcOpSub(nil, l, r), new(big.Int).Sub(bigOfInt(l), bigOfInt(r)), "int-int")
}

func H_C10_mul_int() {
	l, r := nondetInt(), nondetInt()
	c10Exact(funcOpMul(nil, l, r), new(big.Int).Mul(bigOfInt(l), bigOfInt(r)), "int*int")
}

func H_C10_div_int() {
	l, r := nondetInt(), nondetInt()
	got := funcOpDiv(nil, l, r)
	if r == 0 {
		_, isErr := got.(*zeroDivisionError)
		vassert(isErr, "int/0 is a zero-division error")
		vreach("zero")
		return
	}
	L, R := bigOfInt(l), bigOfInt(r)
	rem := new(big.Int).Rem(L, R)
	if rem.Sign() == 0 {
		// integral quotient: q*r == l exactly
		switch g := got.(type) {
		case int:
			vassert(bigEq(new(big.Int).Mul(bigOfInt(g), R), L), "int/int integral quotient exact (int)")
			vreach("int")
		case *big.Int:
			vassert(bigEq(new(big.Int).Mul(g, R), L), "int/int integral quotient exact (big)")
			vreach("big")
		default:
			vassert(false, "int/int with integral quotient is not an integer")
		}
		return
	}
	_, isFloat := got.(float64)
	vassert(isFloat, "int/int with fractional quotient is a float")
	vreach("float")
}

func H_C10_mod_int() {
	l, r := nondetInt(), nondetInt()
	got := funcOpMod(nil, l, r)
	if r == 0 {
		_, isErr := got.(*zeroModuloError)
		vassert(isErr, "int%0 is a zero-modulo error")
		vreach("zero")
		return
	}
	c10Exact(got, new(big.Int).Rem(bigOfInt(l), bigOfInt(r)), "int%int (truncated, sign of dividend)")
	if g, ok := got.(int); ok {
		vassert(g == 0 || (g < 0) == (l < 0), "modulo takes the sign of the dividend")
		if r == -1 {
			vassert(g == 0, "x % -1 == 0")
		}
	}
}

func H_C10_neg_int() {
	v := nondetInt()
	c10Exact(funcOpNegate(v), new(big.Int).Neg(bigOfInt(v)), "-int")
	c10Exact(negate(v), new(big.Int).Neg(bigOfInt(v)), "negate(int)")
}

func H_C10_abs_int() {
	v := nondetInt()
	want := new(big.Int).Abs(bigOfInt(v))
	c10Exact(funcAbs(v), want, "abs(int)")
	c10Exact(funcLength(v), want, "length(int)")
}

// mixed and big operands: delegation to math/big is exact, zero divisors are errors
func c10Operand(k int) any {
	if k == 0 {
		return nondetInt()
	}
	return nondetBig()
}

func c10Big(v any) *big.Int {
	switch v := v.(type) {
	case int:
		return bigOfInt(v)
	case *big.Int:
		return v
	}
	return nil
}

func H_C10_big_ops() {
	lk, rk := nondetChoice(2), nondetChoice(2)
	if lk == 0 && rk == 0 {
		return // covered by the int harnesses
	}
	l, r := c10Operand(lk), c10Operand(rk)
	L, R := c10Big(l), c10Big(r)
	switch nondetChoice(5) {
	case 0:
		c10Exact(funcOpAdd(nil, l, r), new(big.Int).Add(L, R), "big add")
	case 1:
		c10Exact(funcOpSub(nil, l, r), new(big.Int).Sub(L, R), "big sub")
	case 2:
		c10Exact(funcOpMul(nil, l, r), new(big.Int).Mul(L, R), "big mul")
	case 3:
		got := funcOpDiv(nil, l, r)
		if R.Sign() == 0 {
			_, isErr := got.(*zeroDivisionError)
			vassert(isErr, "big/0 is a zero-division error")
			vreach("divzero")
			return
		}
		if new(big.Int).Rem(L, R).Sign() == 0 {
			g := c10Big(got)
			vassert(g != nil, "big/big integral quotient is an integer")
			if g != nil {
				vassert(bigEq(new(big.Int).Mul(g, R), L), "big/big integral quotient exact")
			}
			vreach("divexact")
		}
	case 4:
		got := funcOpMod(nil, l, r)
		if R.Sign() == 0 {
			_, isErr := got.(*zeroModuloError)
			vassert(isErr, "big%0 is a zero-modulo error")
			vreach("modzero")
			return
		}
		c10Exact(got, new(big.Int).Rem(L, R), "big mod")
	}
}

func H_C10_big_unary() {
	v := nondetBig()
	c10Exact(funcOpNegate(v), new(big.Int).Neg(v), "-big")
	c10Exact(funcAbs(v), new(big.Int).Abs(v), "abs(big)")
	c10Exact(funcLength(v), new(big.Int).Abs(v), "length(big)")
	// toInt saturates
	i, ok := toInt(v)
	vassert(ok, "toInt(big) ok")
	if bigLess(v, bigOfInt(math.MinInt)) {
		vassert(i == math.MinInt, "toInt saturates low")
		vreach("satlow")
	} else if bigLess(bigOfInt(math.MaxInt), v) {
		vassert(i == math.MaxInt, "toInt saturates high")
		vreach("sathigh")
	} else {
		vassert(bigEq(bigOfInt(i), v), "toInt exact in range")
		vreach("inrange")
	}
}

// comparisons between integers are exact in every representation pair
func H_C10_cmp() {
	lk, rk := nondetChoice(2), nondetChoice(2)
	l, r := c10Operand(lk), c10Operand(rk)
	L, R := c10Big(l), c10Big(r)
	c := Compare(l, r)
	want := 0
	if bigLess(L, R) {
		want = -1
	} else if bigLess(R, L) {
		want = 1
	}
	vassert(c == want, "Compare on integers is the exact order")
	vassert(funcOpEq(nil, l, r).(bool) == (want == 0), "== exact")
	vassert(funcOpNe(nil, l, r).(bool) == (want != 0), "!= exact")
	vassert(funcOpLt(nil, l, r).(bool) == (want < 0), "< exact")
	vassert(funcOpLe(nil, l, r).(bool) == (want <= 0), "<= exact")
	vassert(funcOpGt(nil, l, r).(bool) == (want > 0), "> exact")
	vassert(funcOpGe(nil, l, r).(bool) == (want >= 0), ">= exact")
	vreach("end")
}

// H_C10_print: a number that reaches the output untouched is printed with its digits:
// ints and bigs around the 64-bit boundaries through the library encoder read back exact.
func H_C10_print() {
	d := big.NewInt(int64(int8(nondetByte())))
	bases := []string{"0", "9223372036854775807", "9223372036854775808", "18446744073709551615", "18446744073709551616", "-9223372036854775808", "-9223372036854775809", "-18446744073709551616", "123456789012345678901234567890", "13835058055282163712"}
	b, _ := new(big.Int).SetString(bases[nondetChoice(len(bases))], 10)
	b.Add(b, d)
	var v any = b
	if b.IsInt64() && nondetBool() {
		v = int(b.Int64())
	}
	text := jsonMarshal(v)
	back, ok := new(big.Int).SetString(text, 10)
	vassert(ok, "an integer is printed as a plain decimal integer")
	if ok {
		vassert(back.Cmp(b) == 0, "an integer of any size is printed with exactly its digits")
	}
	bs, _ := Marshal(v)
	vassert(string(bs) == text, "Marshal and tojson print the same digits")
	vassert(funcToString(v).(string) == text && funcToJSON(v).(string) == text, "tostring / tojson print the same digits")
	// a literal carried as json.Number is printed byte for byte
	lit := json.Number(text)
	vassert(jsonMarshal(lit) == text, "a number literal is printed with the digits it had")
	vreach("end")
}
