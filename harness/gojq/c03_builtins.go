package gojq

import (
	"encoding/json"
	"math"
	"math/big"
)

// C03 / C08 — every native builtin on every tuple of argument type shapes with symbolic
// leaves: no panic; the result is a value of one of the nine supported dynamic types
// (deeply), an Iter of such values, or an error.

func vmemo_c03Names() []string {
	var ns []string
	for name, fn := range internalFuncs {
		if fn.callback == nil {
			continue
		}
		switch name {
		case "now", "localtime", "strflocaltime", "gmtime", "mktime", "strftime", "strptime":
			continue // time: contract stubs, see C13
		case "empty", "path", "env", "builtins", "input", "modulemeta", "debug", "_match":
			continue // compiled specially: the table entry only records the arity
		}
		ns = append(ns, name)
	}
	// insertion sort: deterministic order in the interpreter and natively
	for i := 1; i < len(ns); i++ {
		for j := i; j > 0 && ns[j] < ns[j-1]; j-- {
			ns[j], ns[j-1] = ns[j-1], ns[j]
		}
	}
	return ns
}

func c03ValidValue(v any, depth int) bool {
	if depth > 8 {
		return false
	}
	switch v := v.(type) {
	case nil, bool, int, float64, string, json.Number:
		return true
	case *big.Int:
		return v != nil
	case []any:
		for _, x := range v {
			if !c03ValidValue(x, depth+1) {
				return false
			}
		}
		return true
	case map[string]any:
		for _, x := range v {
			if !c03ValidValue(x, depth+1) {
				return false
			}
		}
		return true
	}
	return false
}

// the wide universe (22 shapes) is used for builtins of arity <= 1, the narrow one (10)
// for arity >= 2 so that the tuple space stays tractable
func c03Shape(narrow bool) any {
	if narrow {
		switch nondetChoice(10) {
		case 0:
			return nil
		case 1:
			return nondetBool()
		case 2:
			return int(int8(nondetByte()))
		case 3:
			return math.NaN()
		case 4:
			return 0.5
		case 5:
			return c03Big()
		case 6:
			return nondetString(1)
		case 7:
			return []any{int(int8(nondetByte()))}
		case 8:
			return map[string]any{"a": int(int8(nondetByte()))}
		default:
			return []any{}
		}
	}
	switch nondetChoice(12) {
	case 0:
		return nil
	case 1:
		return nondetBool()
	case 2:
		return c03Int()
	case 3:
		return c03Floats[nondetChoice(len(c03Floats))]
	case 4:
		return c03Big()
	case 5:
		return nondetString(nondetChoice(3)) // any bytes, invalid UTF-8 included
	case 6:
		return []any{}
	case 7:
		return []any{c03Leaf()}
	case 8:
		return []any{int(int8(nondetByte())), int(int8(nondetByte()))}
	case 9:
		return map[string]any{}
	case 10:
		return map[string]any{"a": c03Leaf()}
	default:
		return []any{[]any{int(int8(nondetByte()))}, nondetString(1)}
	}
}

var c03ConcreteNums = []any{0, 1, -1, 7, math.MaxInt, math.MinInt, 0.5, -1.5, math.NaN(), math.Inf(1), 1e300, 3.0}

func c03Arg(narrow, concrete, tiny bool) any {
	if tiny {
		switch nondetChoice(6) {
		case 0:
			return nil
		case 1:
			return int(int8(nondetByte()))
		case 2:
			return 1.5
		case 3:
			return nondetString(2)
		case 4:
			return []any{int(int8(nondetByte())), nil}
		default:
			return map[string]any{}
		}
	}
	if !concrete {
		return c03Shape(narrow)
	}
	switch nondetChoice(8) {
	case 0:
		return nil
	case 1:
		return nondetBool()
	case 2:
		return c03ConcreteNums[nondetChoice(len(c03ConcreteNums))]
	case 3:
		b, _ := new(big.Int).SetString("-36893488147419103232", 10)
		return b
	case 4:
		return nondetString(1)
	case 5:
		return []any{1}
	case 6:
		return map[string]any{"a": map[string]any{"b": 1}}
	default:
		return map[string]any{"a": nondetString(1)}
	}
}

func c03Leaf() any {
	switch nondetChoice(3) {
	case 0:
		return nil
	case 1:
		return int(int8(nondetByte()))
	default:
		return nondetString(1)
	}
}

// ints: a symbolic value in [-128,127] (sign-extended byte: cheap for the solver even
// under multiplication and division) or a boundary constant
func c03Int() int {
	switch nondetChoice(4) {
	case 0:
		return int(int8(nondetByte()))
	case 1:
		return math.MaxInt
	case 2:
		return math.MinInt
	default:
		return 0x20000000 + int(int8(nondetByte()))
	}
}

var c03Floats = []float64{math.NaN(), math.Inf(1), math.Inf(-1), math.Copysign(0, -1), 0.5, -1.5, 1e300, 3.0, 9007199254740992.0, 1e-320, 2147483648.5, -9223372036854775808.0, 1e19}

// bigs: 2^64 + small symbolic, its negation, or a 30-digit constant
func c03Big() *big.Int {
	b := new(big.Int).Lsh(big.NewInt(1), 64)
	switch nondetChoice(3) {
	case 0:
		return b.Add(b, big.NewInt(int64(int8(nondetByte()))))
	case 1:
		return b.Neg(b.Add(b, big.NewInt(int64(int8(nondetByte())))))
	default:
		c, _ := new(big.Int).SetString("123456789012345678901234567890", 10)
		return c
	}
}

func H_C03_total() {
	names := vmemo_c03Names()
	lo, hi := vparam("from", 0), vparam("to", len(names))
	if hi > len(names) {
		hi = len(names)
	}
	name := names[lo+nondetChoice(hi-lo)]
	vlabel("func", name)
	fn := internalFuncs[name]
	var arities []int
	for n := 0; n <= 3; n++ {
		if fn.accept(n) {
			arities = append(arities, n)
		}
	}
	n := arities[nondetChoice(len(arities))]
	narrow := n >= 2 || n == 1 && vparam("wide", 0) == 0
	// multiplication/division/modulo kernels on symbolic 64-bit and 192-bit vectors are
	// out of reach of bit-blasting (exactness over ALL operands is C10's job, in the
	// integer rendering); here their numeric operands are boundary constants
	concrete := name == "_multiply" || name == "_divide" || name == "_modulo" || name == "fma" || name == "pow"
	tiny := n >= 3 && vparam("wide", 0) == 0
	v := c03Arg(narrow, concrete, tiny)
	args := make([]any, n)
	for i := range args {
		args[i] = c03Arg(narrow, concrete, tiny)
	}
	r := fn.callback(v, args)
	if fn.iter {
		it, ok := r.(Iter)
		if !ok {
			_, isErr := r.(error)
			vassert(isErr, "an iterator builtin returns an Iter or an error")
			vreach("error")
			return
		}
		for k := 0; k < 4; k++ {
			x, ok := it.Next()
			if !ok {
				break
			}
			if _, isErr := x.(error); isErr {
				break
			}
			vassert(c03ValidValue(x, 0), "an iterator builtin yields values of the supported types")
		}
		vreach("iter")
		return
	}
	if _, isErr := r.(error); isErr {
		vreach("error")
		return
	}
	vassert(c03ValidValue(r, 0), "a builtin returns a value of a supported type or an error")
	vreach("value")
}

// H_C08_format: the formatters never panic and terminate on every value: Marshal,
// Preview, TypeOf, Compare, the Error methods of the error values natives return.
func H_C08_format() {
	d := 1 + vparam("deep", 0)
	v := hGenValue(hkNull|hkBool|hkInt|hkStr|hkArr|hkObj, d, d, 1)
	if nondetBool() {
		v = c03Arg(true, true, false)
	}
	if nondetBool() {
		c08Errors(v)
		return
	}
	bs, err := Marshal(v)
	vassert(err == nil && len(bs) > 0, "Marshal of a supported value succeeds")
	p := Preview(v)
	vassert(len(p) > 0 && len(p) <= 32, "Preview is short and never empty")
	vassert(TypeOf(v) != "", "TypeOf names every supported value")
	vassert(Compare(v, v) == 0 || v != v, "Compare is reflexive")
	vreach("end")
}

func c08Errors(v any) {
	var w any = []any{nondetBool()}
	errs := []error{
		&binopTypeError{"add", v, w}, &func0TypeError{"f", v}, &func1TypeError{"f", v, w}, &func2TypeError{"f", v, w, v},
		&expectedObjectError{v}, &expectedArrayError{v}, &iteratorError{v}, &objectKeyNotStringError{v}, &arrayIndexNotNumberError{v},
		&stringIndexNotNumberError{v}, &expectedStartEndError{v}, &arrayIndexTooLargeError{v}, &unaryTypeError{"negate", v},
		&zeroDivisionError{v, w}, &zeroModuloError{v, w}, &formatRowError{"csv", v}, &exitCodeError{v, 5}, &invalidPathError{v}, &invalidPathIterError{v},
		&func0WrapError{"f", v, &expectedArrayError{w}}, &func1WrapError{"f", v, w, &expectedArrayError{w}}, &func2WrapError{"f", v, w, v, &expectedArrayError{w}},
		(*HaltError)(&exitCodeError{v, 1}),
	}
	e := errs[nondetChoice(len(errs))]
	vassert(len(e.Error()) > 0, "every error value has a message")
	vreach("end")
}
