package gojq

import (
	"errors"
	"sort"
)

// refjq — a definitional evaluator for jq's core forms over gojq's own AST types,
// written for the checks (C01): plain recursive Go in continuation-passing style with
// the generator order spelled out. It shares with the implementation only the scalar
// kernels (funcOpAdd, Compare, funcIndex2, ... — checked separately under C03/C10/C11)
// and the parsed text of the jq-defined builtins. Anything outside the core grammar
// (paths, updates, formats, modules, ...) is reported as unsupported and skipped.

var errRefUnsupported = errors.New("refjq: unsupported form")
var errRefStop = errors.New("refjq: stop") // the consumer wants no more outputs
var errRefFuel = errors.New("refjq: fuel exhausted")

type refBreak struct{ id int }

func (*refBreak) Error() string { return "break" }

// refPass wraps an error raised by the continuation (downstream), so that `try` does
// not intercept it.
type refPass struct{ err error }

func (p *refPass) Error() string { return p.err.Error() }

type refVar struct {
	name string
	val  any
	next *refVar
}

type refFunc struct {
	def  *FuncDef
	env  *refEnv // defining environment (for recursion the function itself is added at call time)
	next *refFunc
	// closure parameter: a filter argument bound to the caller's environment
	arg    *Query
	argEnv *refEnv
	name   string
	arity  int
}

type refLabel struct {
	name string
	id   int
	next *refLabel
}

type refEnv struct {
	vars   *refVar
	funcs  *refFunc
	labels *refLabel
}

type refState struct {
	fuel    int
	labelID int
}

func (e *refEnv) withVar(name string, v any) *refEnv {
	return &refEnv{&refVar{name, v, e.vars}, e.funcs, e.labels}
}

func (e *refEnv) lookupVar(name string) (any, bool) {
	for p := e.vars; p != nil; p = p.next {
		if p.name == name {
			return p.val, true
		}
	}
	return nil, false
}

func (e *refEnv) withDef(fd *FuncDef) *refEnv {
	ne := &refEnv{e.vars, nil, e.labels}
	ne.funcs = &refFunc{def: fd, env: ne, next: e.funcs, name: fd.Name, arity: len(fd.Args)}
	return ne
}

func (e *refEnv) lookupFunc(name string, arity int) *refFunc {
	for p := e.funcs; p != nil; p = p.next {
		if p.name == name && p.arity == arity {
			return p
		}
	}
	return nil
}

type refK func(any) error

func refTruthy(v any) bool { return !(v == nil || v == false) }

// refErrValue: what catch sees
func refErrValue(err error) any {
	if ve, ok := err.(ValueError); ok {
		return ve.Value()
	}
	return err.Error()
}

func refCatchable(err error) bool {
	switch err.(type) {
	case *refBreak, *HaltError, *refPass:
		return false
	}
	return err != errRefStop && err != errRefUnsupported && err != errRefFuel
}

func (st *refState) evalQuery(q *Query, v any, env *refEnv, k refK) error {
	st.fuel--
	if st.fuel < 0 {
		return errRefFuel
	}
	if len(q.Meta.keyvals()) > 0 || len(q.Imports) > 0 {
		return errRefUnsupported
	}
	for _, fd := range q.FuncDefs {
		env = env.withDef(fd)
	}
	if q.Term != nil {
		return st.evalTerm(q.Term, v, env, k)
	}
	switch q.Op {
	case OpPipe:
		if len(q.Patterns) > 0 {
			return st.evalBind(q, v, env, k)
		}
		return st.evalQuery(q.Left, v, env, func(x any) error { return st.evalQuery(q.Right, x, env, k) })
	case OpComma:
		if err := st.evalQuery(q.Left, v, env, k); err != nil {
			return err
		}
		return st.evalQuery(q.Right, v, env, k)
	case OpAlt:
		// all truthy outputs of the left; if there was none, the right. An error raised
		// by the left is NOT suppressed (as in jq).
		found := false
		err := st.evalQuery(q.Left, v, env, func(x any) error {
			if !refTruthy(x) {
				return nil
			}
			found = true
			return k(x)
		})
		if err != nil || found {
			return err
		}
		return st.evalQuery(q.Right, v, env, k)
	case OpAnd:
		return st.evalQuery(q.Left, v, env, func(l any) error {
			if !refTruthy(l) {
				return k(false)
			}
			return st.evalQuery(q.Right, v, env, func(r any) error { return k(refTruthy(r)) })
		})
	case OpOr:
		return st.evalQuery(q.Left, v, env, func(l any) error {
			if refTruthy(l) {
				return k(true)
			}
			return st.evalQuery(q.Right, v, env, func(r any) error { return k(refTruthy(r)) })
		})
	case OpAdd, OpSub, OpMul, OpDiv, OpMod, OpEq, OpNe, OpGt, OpLt, OpGe, OpLe:
		// right operand outer, left operand inner
		f := internalFuncs[q.Op.getFunc()].callback
		return st.evalQuery(q.Right, v, env, func(r any) error {
			return st.evalQuery(q.Left, v, env, func(l any) error {
				res := f(nil, []any{l, r})
				if e, ok := res.(error); ok {
					return e
				}
				return k(res)
			})
		})
	}
	return errRefUnsupported // update operators: C02
}

func (m *ConstObject) keyvals() []*ConstObjectKeyVal {
	if m == nil {
		return nil
	}
	return m.KeyVals
}

func (st *refState) evalTerm(t *Term, v any, env *refEnv, k refK) error {
	if len(t.SuffixList) > 0 {
		return st.evalSuffixes(t, len(t.SuffixList), v, env, k)
	}
	return st.evalTermBase(t, v, env, k)
}

// evalSuffixes evaluates term t with its first n suffixes.
func (st *refState) evalSuffixes(t *Term, n int, v any, env *refEnv, k refK) error {
	if n == 0 {
		return st.evalTermBase(t, v, env, k)
	}
	s := t.SuffixList[n-1]
	switch {
	case s.Optional:
		guard := func(run func(refK) error) error {
			err := run(func(x any) error {
				if e := k(x); e != nil {
					return &refPass{e}
				}
				return nil
			})
			if p, ok := err.(*refPass); ok {
				return p.err
			}
			if err != nil && !refCatchable(err) {
				return err
			}
			return nil
		}
		// `T.a?`, `T[e]?`, `T[]?`: only the last access is guarded, errors raised by T
		// propagate (calibration point: gojq also guards the evaluation of e itself)
		if n >= 2 {
			if prev := t.SuffixList[n-2]; prev.Iter || prev.Index != nil {
				return st.evalSuffixes(t, n-2, v, env, func(x any) error {
					return guard(func(kk refK) error {
						if prev.Iter {
							return refIterate(x, kk)
						}
						return st.evalIndex(prev.Index, x, v, env, kk)
					})
				})
			}
		}
		return guard(func(kk refK) error { return st.evalSuffixes(t, n-1, v, env, kk) })
	case s.Iter:
		return st.evalSuffixes(t, n-1, v, env, func(x any) error { return refIterate(x, k) })
	case s.Index != nil:
		return st.evalSuffixes(t, n-1, v, env, func(x any) error { return st.evalIndex(s.Index, x, v, env, k) })
	}
	return errRefUnsupported
}

func refIterate(x any, k refK) error {
	switch x := x.(type) {
	case []any:
		for _, e := range x {
			if err := k(e); err != nil {
				return err
			}
		}
		return nil
	case map[string]any:
		keys := make([]string, 0, len(x))
		for key := range x {
			keys = append(keys, key)
		}
		sort.Strings(keys)
		for _, key := range keys {
			if err := k(x[key]); err != nil {
				return err
			}
		}
		return nil
	}
	return &iteratorError{x}
}

// evalIndex: base[index] where the index expressions are evaluated against ctx (the
// input of the whole term), start outer / end inner for slices.
func (st *refState) evalIndex(ix *Index, base, ctx any, env *refEnv, k refK) error {
	apply := func(key any) error {
		r := funcIndex2(nil, base, key)
		if e, ok := r.(error); ok {
			return e
		}
		return k(r)
	}
	switch {
	case ix.Name != "":
		return apply(ix.Name)
	case ix.Str != nil:
		return st.evalString(ix.Str, "", ctx, env, func(s any) error { return apply(s) })
	case !ix.IsSlice:
		return st.evalQuery(ix.Start, ctx, env, apply)
	}
	slice := func(s, e any) error {
		r := funcSlice(nil, base, e, s)
		if err, ok := r.(error); ok {
			return err
		}
		return k(r)
	}
	switch {
	case ix.Start != nil && ix.End != nil:
		// gojq evaluates the end in the outer loop (arguments of _slice: last outermost)
		return st.evalQuery(ix.Start, ctx, env, func(s any) error {
			return st.evalQuery(ix.End, ctx, env, func(e any) error { return slice(s, e) })
		})
	case ix.Start != nil:
		return st.evalQuery(ix.Start, ctx, env, func(s any) error { return slice(s, nil) })
	default:
		return st.evalQuery(ix.End, ctx, env, func(e any) error { return slice(nil, e) })
	}
}

func (st *refState) evalTermBase(t *Term, v any, env *refEnv, k refK) error {
	switch t.Type {
	case TermTypeIdentity:
		return k(v)
	case TermTypeRecurse:
		var rec func(x any) error
		rec = func(x any) error {
			if err := k(x); err != nil {
				return err
			}
			switch x.(type) {
			case []any, map[string]any:
				return refIterate(x, rec)
			}
			return nil
		}
		return rec(v)
	case TermTypeNull:
		return k(nil)
	case TermTypeTrue:
		return k(true)
	case TermTypeFalse:
		return k(false)
	case TermTypeNumber:
		return k(toNumber(t.Number))
	case TermTypeIndex:
		return st.evalIndex(t.Index, v, v, env, k)
	case TermTypeQuery:
		return st.evalQuery(t.Query, v, env, k)
	case TermTypeUnary:
		return st.evalTerm(t.Unary.Term, v, env, func(x any) error {
			var r any
			if t.Unary.Op == OpSub {
				r = funcOpNegate(x)
			} else {
				r = funcOpPlus(x)
			}
			if e, ok := r.(error); ok {
				return e
			}
			return k(r)
		})
	case TermTypeString:
		return st.evalString(t.Str, "", v, env, k)
	case TermTypeFormat:
		if t.Str == nil {
			return errRefUnsupported
		}
		return st.evalString(t.Str, t.Format, v, env, k)
	case TermTypeArray:
		out := []any{}
		if t.Array.Query != nil {
			if err := st.evalQuery(t.Array.Query, v, env, func(x any) error { out = append(out, x); return nil }); err != nil {
				return err
			}
		}
		return k(out)
	case TermTypeObject:
		return st.evalObject(t.Object.KeyVals, 0, map[string]any{}, v, env, k)
	case TermTypeIf:
		return st.evalIf(t.If.Cond, t.If.Then, t.If.Elif, t.If.Else, v, env, k)
	case TermTypeTry:
		err := st.evalQuery(t.Try.Body, v, env, func(x any) error {
			if e := k(x); e != nil {
				return &refPass{e}
			}
			return nil
		})
		if p, ok := err.(*refPass); ok {
			return p.err
		}
		if err == nil || !refCatchable(err) {
			return err
		}
		if t.Try.Catch == nil {
			return nil
		}
		return st.evalQuery(t.Try.Catch, refErrValue(err), env, k)
	case TermTypeReduce:
		r := t.Reduce
		return st.evalQuery(r.Start, v, env, func(init any) error {
			state := init
			err := st.evalQuery(r.Query, v, env, func(x any) error {
				return st.bindPattern(r.Pattern, x, env, func(benv *refEnv) error {
					var last any
					have := false
					if err := st.evalQuery(r.Update, state, benv, func(u any) error { last, have = u, true; return nil }); err != nil {
						return err
					}
					if have {
						state = last
					}
					return nil
				})
			})
			if err != nil {
				return err
			}
			return k(state)
		})
	case TermTypeForeach:
		f := t.Foreach
		return st.evalQuery(f.Start, v, env, func(init any) error {
			state := init
			return st.evalQuery(f.Query, v, env, func(x any) error {
				return st.bindPattern(f.Pattern, x, env, func(benv *refEnv) error {
					cur := state
					return st.evalQuery(f.Update, cur, benv, func(u any) error {
						state = u
						if f.Extract == nil {
							return k(u)
						}
						return st.evalQuery(f.Extract, u, benv, k)
					})
				})
			})
		})
	case TermTypeLabel:
		st.labelID++
		id := st.labelID
		lenv := &refEnv{env.vars, env.funcs, &refLabel{t.Label.Ident, id, env.labels}}
		err := st.evalQuery(t.Label.Body, v, lenv, k)
		if b, ok := err.(*refBreak); ok && b.id == id {
			return nil
		}
		return err
	case TermTypeBreak:
		for l := env.labels; l != nil; l = l.next {
			if l.name == t.Break {
				return &refBreak{l.id}
			}
		}
		return errRefUnsupported
	case TermTypeFunc:
		return st.evalCall(t.Func, v, env, k)
	}
	return errRefUnsupported
}

func (st *refState) evalIf(cond, then *Query, elifs []*IfElif, els *Query, v any, env *refEnv, k refK) error {
	return st.evalQuery(cond, v, env, func(c any) error {
		if refTruthy(c) {
			return st.evalQuery(then, v, env, k)
		}
		if len(elifs) > 0 {
			return st.evalIf(elifs[0].Cond, elifs[0].Then, elifs[1:], els, v, env, k)
		}
		if els != nil {
			return st.evalQuery(els, v, env, k)
		}
		return k(v)
	})
}

// evalString: interpolation is a left-associated chain of +, hence the LAST
// interpolation is the outermost loop.
func (st *refState) evalString(s *String, format string, v any, env *refEnv, k refK) error {
	if s.Queries == nil {
		return k(s.Str)
	}
	if format != "" && format != "@text" && format != "@json" {
		return errRefUnsupported
	}
	var rec func(i int, suffix string) error
	rec = func(i int, suffix string) error {
		if i < 0 {
			return k(suffix)
		}
		q := s.Queries[i]
		if q.Term != nil && q.Term.Type == TermTypeString && q.Term.Str.Queries == nil && len(q.Term.SuffixList) == 0 {
			return rec(i-1, q.Term.Str.Str+suffix) // a literal piece
		}
		return st.evalQuery(q, v, env, func(x any) error {
			var piece string
			if str, ok := x.(string); ok && format != "@json" {
				piece = str
			} else {
				piece = jsonMarshal(x)
			}
			return rec(i-1, piece+suffix)
		})
	}
	return rec(len(s.Queries)-1, "")
}

// evalObject: first pair outermost; within a pair key outer, value inner.
func (st *refState) evalObject(kvs []*ObjectKeyVal, i int, acc map[string]any, v any, env *refEnv, k refK) error {
	if i == len(kvs) {
		m := make(map[string]any, len(acc))
		for key, x := range acc {
			m[key] = x
		}
		return k(m)
	}
	kv := kvs[i]
	withKey := func(key any) error {
		ks, ok := key.(string)
		if !ok {
			return &objectKeyNotStringError{key}
		}
		set := func(x any) error {
			old, had := acc[ks]
			acc[ks] = x
			err := st.evalObject(kvs, i+1, acc, v, env, k)
			if had {
				acc[ks] = old
			} else {
				delete(acc, ks)
			}
			return err
		}
		if kv.Val != nil {
			return st.evalQuery(kv.Val, v, env, set)
		}
		// {foo} = {foo: .foo}, {$x} = {x: $x}, {"a"}, {@base64 ...}: shorthand
		if kv.Key != "" && kv.Key[0] == '$' {
			x, ok := env.lookupVar(kv.Key)
			if !ok {
				return errRefUnsupported
			}
			return set(x)
		}
		r := funcIndex2(nil, v, ks)
		if e, ok := r.(error); ok {
			return e
		}
		return set(r)
	}
	switch {
	case kv.Key != "":
		if kv.Key[0] == '$' {
			if kv.Val != nil {
				x, ok := env.lookupVar(kv.Key)
				if !ok {
					return errRefUnsupported
				}
				return withKey(x)
			}
			return withKey(kv.Key[1:])
		}
		return withKey(kv.Key)
	case kv.KeyString != nil:
		return st.evalString(kv.KeyString, "", v, env, withKey)
	case kv.KeyQuery != nil:
		return st.evalQuery(kv.KeyQuery, v, env, withKey)
	}
	return errRefUnsupported
}

// bindPattern binds the variables of p to the parts of x (destructuring generates when
// a key query generates) and calls body with the extended environment.
func (st *refState) bindPattern(p *Pattern, x any, env *refEnv, body func(*refEnv) error) error {
	switch {
	case p.Name != "":
		return body(env.withVar(p.Name, x))
	case p.Array != nil:
		var rec func(i int, e *refEnv) error
		rec = func(i int, e *refEnv) error {
			if i == len(p.Array) {
				return body(e)
			}
			r := funcIndex2(nil, x, i)
			if err, ok := r.(error); ok {
				return err
			}
			return st.bindPattern(p.Array[i], r, e, func(ne *refEnv) error { return rec(i+1, ne) })
		}
		if x != nil {
			if _, ok := x.([]any); !ok {
				return &expectedArrayError{x}
			}
		}
		return rec(0, env)
	case p.Object != nil:
		var rec func(i int, e *refEnv) error
		rec = func(i int, e *refEnv) error {
			if i == len(p.Object) {
				return body(e)
			}
			po := p.Object[i]
			withKey := func(key any, e2 *refEnv) error {
				ks, ok := key.(string)
				if !ok {
					return &objectKeyNotStringError{key}
				}
				r := funcIndex2(nil, x, ks)
				if err, ok := r.(error); ok {
					return err
				}
				if po.Key != "" && po.Key[0] == '$' {
					e2 = e2.withVar(po.Key, r)
				}
				if po.Val != nil {
					return st.bindPattern(po.Val, r, e2, func(ne *refEnv) error { return rec(i+1, ne) })
				}
				return rec(i+1, e2)
			}
			switch {
			case po.Key != "":
				if po.Key[0] == '$' {
					return withKey(po.Key[1:], e)
				}
				return withKey(po.Key, e)
			case po.KeyString != nil:
				return st.evalString(po.KeyString, "", x, e, func(s any) error { return withKey(s, e) })
			case po.KeyQuery != nil:
				return st.evalQuery(po.KeyQuery, x, e, func(s any) error { return withKey(s, e) })
			}
			return errRefUnsupported
		}
		return rec(0, env)
	}
	return errRefUnsupported
}

func refPatternVars(p *Pattern, out []string) []string {
	if p.Name != "" {
		return append(out, p.Name)
	}
	for _, e := range p.Array {
		out = refPatternVars(e, out)
	}
	for _, e := range p.Object {
		if e.Key != "" && e.Key[0] == '$' {
			out = append(out, e.Key)
		}
		if e.Val != nil {
			out = refPatternVars(e.Val, out)
		}
	}
	return out
}

// evalBind: `E as P1 ?// P2 ... | B`. All variables of all patterns exist in B, null
// unless bound by the alternative in use; an error raised anywhere while an alternative
// is pending (binding, body or downstream) moves on to the next alternative; the last
// alternative's error propagates.
func (st *refState) evalBind(q *Query, v any, env *refEnv, k refK) error {
	return st.evalQuery(q.Left, v, env, func(x any) error {
		base := env
		if len(q.Patterns) > 1 {
			for _, p := range q.Patterns {
				for _, name := range refPatternVars(p, nil) {
					base = base.withVar(name, nil)
				}
			}
		}
		var err error
		for i, p := range q.Patterns {
			err = st.bindPattern(p, x, base, func(benv *refEnv) error { return st.evalQuery(q.Right, v, benv, k) })
			if err == nil || i == len(q.Patterns)-1 || err == errRefStop || err == errRefUnsupported || err == errRefFuel {
				return err
			}
		}
		return err
	})
}

// evalCall: variables, closure parameters, user definitions, jq-defined builtins (from
// the parsed builtin.jq), natives (arguments as cartesian product, LAST outermost).
func (st *refState) evalCall(f *Func, v any, env *refEnv, k refK) error {
	name, args := f.Name, f.Args
	if name[0] == '$' {
		if name == "$__loc__" || name == "$ENV" {
			return errRefUnsupported
		}
		x, ok := env.lookupVar(name)
		if !ok {
			return errRefUnsupported
		}
		return k(x)
	}
	if fn := env.lookupFunc(name, len(args)); fn != nil {
		if fn.arg != nil { // closure parameter: evaluate the argument in the caller's environment
			return st.evalQuery(fn.arg, v, fn.argEnv, k)
		}
		return st.callDef(fn.def, fn.env, args, v, env, k)
	}
	switch name {
	case "empty":
		if len(args) == 0 {
			return nil
		}
	case "error":
		if len(args) == 0 {
			return &exitCodeError{v, 5}
		}
		if len(args) == 1 {
			return st.evalQuery(args[0], v, env, func(x any) error { return &exitCodeError{x, 5} })
		}
	case "not":
		if len(args) == 0 {
			return k(!refTruthy(v))
		}
	case "path", "paths", "getpath", "setpath", "delpaths", "del", "to_entries", "with_entries", "from_entries", "tostream", "fromstream", "truncate_stream", "pick", "input", "inputs", "debug", "stderr", "input_line_number", "env", "builtins", "modulemeta", "halt", "halt_error", "now", "localtime", "mktime", "gmtime", "strftime", "strptime", "strflocaltime", "todate", "fromdate", "date", "dateadd", "datesub", "match", "test", "capture", "scan", "split", "splits", "sub", "gsub", "ascii", "getpath/1", "leaf_paths", "walk", "map_values", "limit", "skip", "nth", "first", "last", "isempty", "until", "repeat", "while", "recurse", "range", "_modify", "_assign", "input_filename", "get_search_list", "splits/1", "ltrimstr", "tojson", "fromjson", "INDEX", "IN", "JOIN", "combinations", "all", "any", "add", "min_by", "max_by", "sort_by", "group_by", "unique_by", "in", "inside", "select", "map", "values", "nulls", "arrays", "objects", "iterables", "booleans", "numbers", "strings", "scalars", "finites", "normals":
		// handled below (jq-defined or native) unless it needs paths
	}
	if fds, ok := builtinFuncDefs[name]; ok {
		for _, fd := range fds {
			if len(fd.Args) == len(args) {
				return st.callDef(fd, &refEnv{}, args, v, env, k)
			}
		}
	}
	if fn, ok := internalFuncs[name]; ok && fn.accept(len(args)) {
		switch name {
		case "path", "env", "builtins", "input", "modulemeta", "debug", "_match", "getpath", "halt", "halt_error", "now", "localtime", "strflocaltime", "mktime", "gmtime", "strftime", "strptime":
			return errRefUnsupported
		}
		vals := make([]any, len(args))
		var rec func(i int) error
		rec = func(i int) error {
			if i < 0 {
				r := fn.callback(v, vals)
				if e, ok := r.(error); ok {
					return e
				}
				if fn.iter {
					it := r.(Iter)
					for {
						x, ok := it.Next()
						if !ok {
							return nil
						}
						if e, isErr := x.(error); isErr {
							return e
						}
						if err := k(x); err != nil {
							return err
						}
					}
				}
				return k(r)
			}
			return st.evalQuery(args[i], v, env, func(x any) error { vals[i] = x; return rec(i - 1) })
		}
		return rec(len(args) - 1)
	}
	return errRefUnsupported
}

// callDef: `def f(a; $b): body`. $-parameters are evaluated left to right as nested
// generators (first outermost) in the caller's environment; filter parameters are
// closures over the caller's environment; the body sees the definition's environment
// plus itself.
func (st *refState) callDef(fd *FuncDef, defEnv *refEnv, args []*Query, v any, callEnv *refEnv, k refK) error {
	benv := &refEnv{defEnv.vars, defEnv.funcs, nil}
	// the function itself (for recursion) unless the defining environment already has it
	if defEnv.lookupFunc(fd.Name, len(fd.Args)) == nil || defEnv.lookupFunc(fd.Name, len(fd.Args)).def != fd {
		benv.funcs = &refFunc{def: fd, env: defEnv, next: benv.funcs, name: fd.Name, arity: len(fd.Args)}
	}
	var bindArgs func(i int, e *refEnv) error
	bindArgs = func(i int, e *refEnv) error {
		if i == len(fd.Args) {
			return st.evalQuery(fd.Body, v, e, k)
		}
		a := fd.Args[i]
		if a[0] == '$' {
			return st.evalQuery(args[i], v, callEnv, func(x any) error {
				ne := e.withVar(a, x)
				// `$a` is also callable as the filter `a`
				ne = &refEnv{ne.vars, &refFunc{arg: &Query{Term: &Term{Type: TermTypeFunc, Func: &Func{Name: a}}}, argEnv: ne, next: ne.funcs, name: a[1:], arity: 0}, ne.labels}
				return bindArgs(i+1, ne)
			})
		}
		ne := &refEnv{e.vars, &refFunc{arg: args[i], argEnv: callEnv, next: e.funcs, name: a, arity: 0}, e.labels}
		return bindArgs(i+1, ne)
	}
	return bindArgs(0, benv)
}

// refRun evaluates q on v and returns up to max outputs; the list ends at (and includes)
// the first uncaught error. ok=false when the query is outside the reference's grammar.
func refRun(q *Query, v any, max int, vars map[string]any) (out []any, ok bool) {
	st := &refState{fuel: 200000}
	env := &refEnv{}
	for name, x := range vars {
		env = env.withVar(name, x)
	}
	err := st.evalQuery(q, v, env, func(x any) error {
		out = append(out, x)
		if len(out) >= max {
			return errRefStop
		}
		return nil
	})
	switch {
	case err == nil || err == errRefStop:
		return out, true
	case err == errRefUnsupported || err == errRefFuel:
		return nil, false
	}
	if _, isBreak := err.(*refBreak); isBreak {
		return nil, false
	}
	return append(out, err), true
}
