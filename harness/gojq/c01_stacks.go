package gojq

// C01 — the persistent (forkable) stacks against a naive list model, over histories of
// push / pop / save / restore chosen by the explorer, values symbolic.

func H_C01_stacks() {
	s := newStack()
	var model []int
	type snap struct {
		idx, lim int
		items    []int
	}
	var snaps []snap
	steps := vparam("steps", 6)
	for step := 0; step < steps; step++ {
		switch nondetChoice(4) {
		case 0:
			v := nondetInt()
			s.push(v)
			model = append(model[:len(model):len(model)], v)
		case 1:
			if len(model) == 0 {
				return
			}
			got := s.pop().(int)
			vassert(got == model[len(model)-1], "pop returns the top of the model")
			model = model[:len(model)-1]
		case 2:
			i, l := s.save()
			snaps = append(snaps, snap{i, l, model})
		case 3:
			if len(snaps) == 0 {
				return
			}
			sn := snaps[len(snaps)-1]
			snaps = snaps[:len(snaps)-1]
			s.restore(sn.idx, sn.lim)
			model = sn.items
		}
		// abstraction: walking the chain yields the model, top first
		i := s.index
		for k := len(model) - 1; k >= 0; k-- {
			vassert(i >= 0, "the chain is long enough")
			if i < 0 {
				return
			}
			vassert(s.data[i].value.(int) == model[k], "the chain holds the model's elements")
			i = s.data[i].next
		}
		vassert(i == -1, "the chain ends where the model ends")
		vassert(s.empty() == (len(model) == 0), "empty agrees with the model")
		// every pending snapshot is still intact: restoring it would yield its items
		for _, sn := range snaps {
			j := sn.idx
			for k := len(sn.items) - 1; k >= 0; k-- {
				vassert(j >= 0 && s.data[j].value.(int) == sn.items[k], "a saved stack is not overwritten by later pushes")
				if j < 0 {
					return
				}
				j = s.data[j].next
			}
		}
	}
	vreach("end")
}
