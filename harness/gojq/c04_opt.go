package gojq

import "strings"

// C04 — compiler rewrites are unobservable. Translation validation per program:
// the same source is compiled as shipped and with a set of rewrites disabled
// (verifOptMask, build tag verif), both are run on the same VM on an input whose
// shape is enumerated and whose leaves are symbolic, and the output/error
// sequences must agree.

var c04Progs = []string{
	// constant arrays and objects
	`[1,2]`, `[1,[2]]`, `[1,.]`, `[[1],[2,[3]]]`, `[]`, `{}`, `{a:1}`, `{a:1,b:[2]}`, `{a:.}`, `{"a":1,"a":2}`,
	`{a:{b:1}}`, `{a:{b:1}}.a.b`, `[1,2][0]`, `[.,1]|.[1]`, `[1,2] | .[0] = 3`, `{a:1} | .a += 1`, `[[1]] | .[0][0] |= 2`,
	`[1,2] | .[1:] = [.]`, `{a:[1]} | .a[1] = .`, `[1,2,3] | del(.[0])`, `{a:1,b:2} | del(.a)`, `[1,2] | map(.+1)`,
	`[1,null,2] | .[]`, `{a:1,b:null} | .[]`, `{a:1} * {a:{b:2}}`, `[1,2] - [2]`, `[[1,2],[3]] | add`, `{a:[1,2]} | .a += [3]`,
	`{("a","b"):1}`, `{a:(1,2)}`, `{(.|tostring):1}`, `[1,2,.] | length`, `["a","b"] | join(",")`, `[3,1,2] | sort`,
	`{a:1} | to_entries`, `[{a:1}] | .[0].a = 2`, `[1,2] as [$a,$b] | {a:$a,b:$b}`, `{a:1} as {a:$x} | [$x]`, `[1,[2]] | flatten`,
	`[1,2] | .[0] |= empty`, `[1,2,3] | .[1:] |= map(.*2)`, `{a:[1,2]} | .a[0] |= .+1`, `[[1,2],[3,4]] | .[][0] |= 9`,
	// literal folding through parentheses, suffixes on literals
	`[(1,.|2)]`, `[(1,2|3)]`, `[(.,1|2)]`, `[(1|2)]`, `[(1,2)]`, `[(1,(2|3))]`, `[((1,2)|3)]`, `{a:(1,2|3)}`, `{a:(1|2)}`, `{(1|"a"):2}`, `[1,(2|3),4]`, `[(1,2),(3|4)]`,
	`.["abc"[1:]]?`, `.["a"[0:1]]?`, `.["ab"[1:]]?`, `.[0[0]?]?`, `.[1[0]?]?`, `.["a" | .]?`, `.[("a")]?`, `.[("a","b")]?`, `."a"[0:1]?`, `.[-1[0]?]?`, `.[1:"2"[0]?]?`,
	`-1[0]`, `-1[0]?`, `[-1[0]?]`, `-1 | .[0]?`, `- 1[0]?`, `-(1[0]?)`, `[-1[0]?, 2]`, `.[-1[0]?]?`, `-"a"[0:1]?`, `-[1][0]`, `-{a:1}.a`, `+1[0]?`, `-1.5[0]?`, `-1?`, `-1 as $x | $x`,
	// signed numbers
	`-1`, `- 1`, `-(1)`, `.[-1]`, `-1 + .`, `[-1, - 2]`, `-.`, `+1`, `+.`, `-1.5`, `-0`, `[.[-1], .[-2]]`, `.[-1:]`, `.[:-1]`, `- .a`, `-(.a // 1)`,
	`-9223372036854775808`, `-(9223372036854775807) - 1`, `[.[] | -.]`,
	// constant index keys / slices
	`.a`, `."a"`, `.["a"]`, `.[0]`, `.[1:2]`, `.[:1]`, `.[1:]`, `.["a","b"]`, `.[0,1]`, `.a.b`, `.a[0]`, `.["a"]["b"]`, `.[.a]`,
	`.a?`, `.[0]?`, `.["a"]?`, `.a.b?`, `.[0][0]`, `.[1:][0]`, `."a"."b"`, `.[null]`, `.[1.5]`, `.[0:1.5]`, `.["a"]?.b`, `.. | .a?`,
	`try .a catch "x"`, `try .[0] catch "x"`, `[.[]?]`, `[..]`, `.a as $x | [$x]`, `path(.a)`, `path(.[0])`, `path(.a[1:])`, `[paths]`,
	`path(.["a"])`, `path(.[-1])`, `path(.a?)`, `[path(..)]`, `path(.[1:2][0])`, `getpath(["a"])`, `path(getpath(["a","b"]))`,
	// constant paths in assignment
	`.a = 1`, `.a.b = 1`, `.[0] = 1`, `.[1:2] = [9]`, `.a[0] = .`, `.a = (1,2)`, `.["a"] = empty`, `(.a) = 1`, `.a."b" = 1`,
	`.[-1] = 1`, `.a = .b`, `.[0] = .[1]`, `.a |= 1`, `.a += 1`, `.[0] |= .+1`, `.a //= 3`, `.[2] = 1`, `.a[1:] = [1]`, `.a = null`,
	`.["a"] = 1`, `.[0][0] = 1`, `.a.b.c = 1`, `.[:1] = [7,8]`, `.a = (.a | length)`, `(.a, .b) = 1`, `.[] = 1`, `.a[] = 1`,
	// argument inlining
	`. + 1`, `1 + .`, `.a + .b`, `. + (1,2)`, `.[0] + .[1]`, `1 + (label $l | .)`, `1 + (reduce . as $x (0; .))`, `. == .`, `[.] | .[0] == .`,
	`length + 1`, `1 as $x | $x + .`, `. as $x | 1 + $x`, `. as [$a] | $a + 1`, `(. as $x | $x) + 1`, `1 + (. as $x | $x)`,
	`. * 2`, `2 * .`, `. - 1`, `. / 2`, `. % 2`, `. < 1`, `1 < .`, `. == 1`, `. != null`, `. and true`, `true or .`, `. // 1`, `(.,1) + (2,3)`,
	`1 + (foreach . as $x (0; .))`, `1 + (label $l | break $l)`, `1 + (try error catch .)`, `[1 + (.[]?)]`, `1 + (first(.,.))`,
	`"a" + .`, `. + "b"`, `. + null`, `null + .`, `[.] + [1]`, `{a:.} + {b:1}`, `.a + 1`, `1 + .a`, `.[0] * .[0]`, `(.a,.b) + 1`,
	`. as $x | $x + $x`, `[.,.] | .[0] + .[1]`, `1 + ($__loc__ | .line)`, `1 + (.. | numbers)`, `1 + (if . then 1 else 2 end)`,
	`tostring + "x"`, `(. | tostring) + (. | tojson)`, `[., 1] | . + .`, `.[.a]?`, `.[(.a,.b)]?`, `.[.[0]]?`, `.[1:.a]?`, `.[.a:]?`,
	`has("a")?`, `has(0)?`, `[limit(1; .,.)]`, `[range(0; 3)]`, `[range(.)]?`, `[range(0; .; 1)]?`, `splits("a")?`, `ltrimstr("a")`,
	`contains(.)`, `inside(.)`, `index(.)?`, `setpath(["a"]; .)?`, `setpath([0]; 1)?`, `getpath(["a","b"])?`, `delpaths([["a"]])?`,
	`to_entries?`, `with_entries(.)?`, `tojson`, `tostring`, `type`, `length?`, `keys?`, `add?`, `any?`, `all?`, `flatten?`, `min?`, `unique?`,
	// if with constant branches
	`if . then 1 else 2 end`, `if . then 1 else . end`, `if . then . else 2 end`, `if true then 1 else 2 end`, `if . then 1 else 2 end | 3`,
	`1 as $x | if . then 1 else $x end | 2`, `1 as $x | {a: (if . then 1 else $x end | 2)}`, `1 as $x | (if . then 1 else $x end | 2) as $y | [., $y]`,
	`if . then 1 elif . == 0 then 2 else 3 end`, `if (.,.) then 1 else 2 end`, `if empty then 1 else 2 end`, `[if . then 1 else 2 end]`,
	`{a: (if . then 1 else 2 end)}`, `if . then 1 end`, `if . then "a" else "b" end`, `if . then [1] else {a:2} end`, `if . then null else false end`,
	`if . then 1 else 2 end, 3`, `(if . then 1 else 2 end) as $x | [$x, .]`, `if . == null then 1 else 2 end | . + 1`, `if .a then 1 else 2 end`,
	`[.[]? | if . then 1 else 2 end]`, `if . then (if . then 1 else 2 end) else 3 end`, `if . then 1 else (if . then 2 else 3 end) end`,
	`if . then 1 else 2 end | if . == 1 then 4 else 5 end`, `. as $x | if $x then 1 else 2 end | [., $x]`, `if error? then 1 else 2 end`,
	`if . then empty else 2 end`, `if . then 1 else empty end`, `if . then 1 else error end`, `try (if . then error else 2 end) catch 3`,
	`"a" as $x | if . then $x else 1 end | 2`, `. as $x | [if . then 1 else $x end | 2]`, `. as [$a,$b] | {a: (if $a then $b else 1 end | 3)}`,
	`[1,2] as [$a,$b] | if . then $a else $b end | [.]`, `if . then 1 else 2 end as $x | $x`, `[(if . then 1 else 2 end), (if . then 3 else 4 end)]`,
	// tail calls
	`def f: if . < 3 then . + 1 | f else . end; 0 | f`, `def f: if . > 0 then . - 1 | f else . end; [3 | f]`,
	`def f: ., (if . < 2 then . + 1 | f else empty end); [0 | f]`, `def f: if . < 2 then (. + 1 | f), 9 else . end; [0 | f]`,
	`def f: (. + 1 | select(. < 3) | f) // .; 0 | f`, `def f: . as $x | if $x < 2 then $x + 1 | f else $x end; 0 | f`,
	`def f(g): if . < 2 then g | f(g) else . end; 0 | f(. + 1)`, `def f: def g: if . < 3 then . + 1 | f else . end; g; 0 | f`,
	`def f: try (if . < 3 then . + 1 | f else error end) catch .; 0 | f`, `[limit(3; def f: ., (. + 1 | f); 0 | f)]`,
	`def f: if . < 1 then reduce . as $x (1; .) | f else . end; 0 | f`, `def f: if . < 2 then . + 1 | f else ., 7 end; [0 | f]`,
	`def f: if . < 2 then . + 1 | f elif . < 4 then . + 2 | f else . end; 0 | f`, `def f: label $l | if . < 2 then . + 1 | f else . end; 0 | f`,
	`def f: 1 as $x | if . < 2 then . + $x | f else . end; 0 | f`, `def f: if . < 2 then . + 1 | f | . + 10 else . end; 0 | f`,
	`def f: if (tojson | length) < 6 then [.] | f else . end; f`, `def f: if type == "array" then .[0] | f else . end; f`,
	`def f: if type == "object" and has("a") then .a | f else . end; f`, `def f: (select(type == "array" and length > 0) | .[0] | f), .; [f]`,
	`def f: if . then false | f else . end; f`, `def g: .; def f: if . < 2 then . + 1 | g | f else . end; 0 | f`,
	`def f($n): if $n > 0 then f($n - 1) else . end; f(2)`, `def f: if . < 1 then 1 | f, 5 else . end; [0 | f]`,
	`[recurse(if . < 2 then . + 1 else empty end)]?`, `[0 | repeat(. + 1; . < 3)]?`, `[0 | while(. < 3; . + 1)]`, `[0 | until(. > 2; . + 1)]`, `last(range(3))`,
	// peephole shapes
	`., 1 | 2`, `(1 | 2)`, `1 as $x | 2`, `. as $x | 1`, `"a" as $x | $x | 1`, `[.[]? | 1]`, `.[]? | 1`, `1, 2 | 3`, `(.a?, .b?) | 4`,
	`.a? as $x | .b? as $y | 5`, `[1 | 2, 3]`, `try error catch 1`, `(try . catch .) | 1`, `[..] | 1`, `label $l | 1`, `first(1,2)`, `{a: (1|2)}`,
	`{(.|"a"): 1}`, `$__loc__|1`, `reduce .[]? as $x (0; 1)`, `foreach .[]? as $x (0; 1; 2)`, `[.[]? as $x | if $x then 1 else $x end | 2]`,
	`(1,2) // 3`, `(.a? // .b?) // 4`, `try (try error catch error) catch 5`, `. as $x | . as $y | 1`, `. as $x | ($x | 1)`, `[. as $x | 1, $x]`,
	`1 | . as $x | 2 | [., $x]`, `.[]? as $x | 1`, `. as $x | .. | 1`, `[.. | 1]`, `label $l | (1, break $l, 2)`, `[label $l | .[]? | if . then break $l else 1 end]`,
	`isempty(.[]?)`, `[limit(2; .[]?)]`, `first(.[]?) // 7`, `[.[]? | select(.) | 1]`, `any(.[]?; .)`, `all(.[]?; .)`, `[.[]?] | map(1)`,
	`"\(.)"`, `"a\(1)b\(2)"`, `"\(1,2)\(3,4)"`, `@json "x\(.)"`, `@base64 "\(.)"?`, `"\(.a?)\(.b?)"`, `[.[]? | "x"]`, `"x" | 1`,
	`1 as $x | 2 as $y | [$x,$y,$__loc__]`, `. as {a:$x} ?// [$x] | [$x]`, `.[]? as [$a] ?// $a | [$a]`, `[.[]? as [$a] ?// $b | [$a,$b]]`,
	`reduce (1,2) as $x (.; 1)`, `reduce empty as $x (.; 1)`, `foreach (1,2) as $x (.; 1; [$x,.])`, `[foreach (1,2,3) as $x (0; .+$x)]`,
	`reduce .[]? as [$a,$b] (0; . + $a)`, `[foreach .[]? as $x (0; 1)]`, `reduce range(3) as $x (.; .)`, `[.[]?, 1] | length`,
	`def f: 1; f | 2`, `def f: .; f | 1`, `def f(x): x | 1; f(2)`, `def f(x): 1 | x; f(.)`, `def f($a): $a | 1; f(2)`, `def f: def g: 1; g | 2; f`,
	`[.[]? | (1, 2) | 3]`, `[(1, 2) | (3, 4) | 5]`, `[1, 2] | .[] | 3`, `{a: 1} | .a | 2`, `[[1]] | .[0] | .[0] | 3`, `input_line_number | 1`,
}

var c04Names = []string{"", "if-empty-cond", "if-const-branches", "const-object", "const-array", "arg-inline", "index-expbegin", "const-index-key", "const-assign-path", "signed-number", "tail-call", "peephole"}

func vmemo_c04Compile(src string, mask int) *Code {
	q, err := Parse(src)
	if err != nil {
		return nil
	}
	verifOptMask = mask
	code, err := Compile(q)
	verifOptMask = 0
	if err != nil {
		return nil
	}
	return code
}

// hCodeValEqual compares instruction operands structurally (function values by name).
func hCodeValEqual(a, b any) bool {
	switch a := a.(type) {
	case nil:
		return b == nil
	case int:
		b, ok := b.(int)
		return ok && a == b
	case [2]int:
		b, ok := b.([2]int)
		return ok && a == b
	case [3]int:
		b, ok := b.([3]int)
		return ok && a == b
	case [3]any:
		b, ok := b.([3]any)
		return ok && a[1].(int) == b[1].(int) && a[2].(string) == b[2].(string)
	}
	switch b.(type) {
	case int, [2]int, [3]int, [3]any:
		return false
	}
	return hIdentical(a, b)
}

// vmemo_c04Differs: does disabling the rewrites in mask change the emitted bytecode?
func vmemo_c04Differs(src string, mask int) bool {
	a, b := vmemo_c04Compile(src, 0), vmemo_c04Compile(src, mask)
	if a == nil || b == nil {
		return a != b
	}
	if len(a.codes) != len(b.codes) {
		return true
	}
	for i := range a.codes {
		if a.codes[i].op != b.codes[i].op || !hCodeValEqual(a.codes[i].v, b.codes[i].v) {
			return true
		}
	}
	return false
}

func c04Input() any {
	if vparam("wide", 0) == 1 {
		return hGenValue(hkNull|hkBool|hkInt|hkStr|hkArr|hkObj, 1, 2, 1)
	}
	// quick universe: scalars, arrays of ints/nulls up to 2, objects over {a,b}
	switch nondetChoice(8) {
	case 0:
		return nil
	case 1:
		return nondetBool()
	case 2:
		return hSmallInt()
	case 3:
		return nondetString(1)
	case 4:
		return []any{}
	case 5:
		return []any{hGenValue(hkNull|hkInt|hkBool, 0, 0, 0), hGenValue(hkInt|hkArr, 1, 1, 0)}
	case 6:
		return map[string]any{"a": hGenValue(hkNull|hkInt|hkBool|hkObj, 1, 1, 0)}
	default:
		return map[string]any{"a": hSmallInt(), "b": hGenValue(hkInt|hkStr|hkArr, 1, 1, 1)}
	}
}

// H_C04_diff: each program x each single rewrite off (and all off) x input universe.
func H_C04_diff() {
	lo, hi := vparam("from", 0), vparam("to", len(c04Progs))
	if hi > len(c04Progs) {
		hi = len(c04Progs)
	}
	p := lo + nondetChoice(hi-lo)
	src := c04Progs[p]
	vlabel("prog", src)
	c04Diff(src)
}

func c04Diff(src string) {
	k := 1 + nondetChoice(12) // 1..11 single switches, 12 = all off
	mask := 1 << k
	name := "all-off"
	if k == 12 {
		mask = 1<<12 - 2
	} else {
		name = c04Names[k]
	}
	vlabel("off", name)
	if !vmemo_c04Differs(src, mask) {
		vreach("same-bytecode")
		return // the rewrite does not apply to this program: nothing to compare
	}
	opt, ref := vmemo_c04Compile(src, 0), vmemo_c04Compile(src, mask)
	vassert((opt == nil) == (ref == nil), "compiles with and without the rewrite")
	if opt == nil || ref == nil {
		return
	}
	input := c04Input()
	a := hRun(opt, input, 8)
	b := hRun(ref, hDeepCopy(input), 8)
	if len(a) == len(b) && len(a) > 0 {
		// recorded finding: the constant-path assignment rewrite reports the same failure
		// through setpath's wrapper, so the message text differs (see known_findings.txt)
		ea, isA := a[len(a)-1].(error)
		eb, isB := b[len(b)-1].(error)
		if isA && isB {
			_, va := ea.(ValueError)
			_, vb := eb.(ValueError)
			if !va && !vb {
				ma, mb := ea.Error(), eb.Error()
				if ma != mb && strings.HasPrefix(ma, "setpath(") && strings.HasSuffix(ma, ": "+mb) {
					hSameOutputs(a[:len(a)-1], b[:len(b)-1], "optimised vs rewrite disabled")
					vassert(false, "error message differs only by the setpath(...) wrapper of the constant-path assignment rewrite")
					return
				}
				// second recorded finding, same rewrite: when the path expression itself fails
				// (e.g. `.[1:].b = 1` on a string) the rewritten code reports setpath's own
				// complaint, the generic code the path expression's: both fail at the same
				// position, the texts differ beyond the wrapper
				if ma != mb && strings.HasPrefix(ma, "setpath(") && strings.Contains(ma, " cannot be applied to ") && !strings.HasPrefix(mb, "setpath(") {
					hSameOutputs(a[:len(a)-1], b[:len(b)-1], "optimised vs rewrite disabled")
					vassert(false, "the constant-path assignment rewrite reports setpath's failure where the path expression's own failure is reported without it")
					return
				}
			}
		}
	}
	hSameOutputs(a, b, "optimised vs rewrite disabled")
	vreach("compared")
}
