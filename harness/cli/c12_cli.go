package cli

import (
	"bytes"

	"github.com/itchyny/gojq"
)

// C12 (command side) — the command's encoder in every output mode. The library's
// Marshal (checked against the reference reader in H_C12_string/H_C12_value) is the
// anchor: compact output must equal it byte for byte, the other modes must equal it
// after removing insignificant whitespace and SGR sequences, and indentation must be
// exactly depth x unit.

func c12Encode(v any, tab bool, indent int, color bool) string {
	old := noColor
	noColor = !color
	defer func() { noColor = old }()
	var out bytes.Buffer
	if err := newEncoder(tab, indent).marshal(v, &out); err != nil {
		return "<error>"
	}
	return out.String()
}

// H_C12_cli_string: both copies of encodeString agree on every byte string.
func H_C12_cli_string() {
	s := nondetString(vparam("n", 2))
	want, _ := gojq.Marshal(s)
	got := c12Encode(s, false, -1, false)
	vassert(got == string(want), "cli compact string encoding equals the library's")
	vreach("end")
}

// c12StripSGR removes ESC [ ... m sequences.
func c12StripSGR(s string) (string, bool) {
	var out []byte
	for i := 0; i < len(s); i++ {
		if s[i] == 0x1b {
			if i+1 >= len(s) || s[i+1] != '[' {
				return "", false
			}
			j := i + 2
			for j < len(s) && (s[j] >= '0' && s[j] <= '9' || s[j] == ';') {
				j++
			}
			if j >= len(s) || s[j] != 'm' {
				return "", false
			}
			i = j
			continue
		}
		out = append(out, s[i])
	}
	return string(out), true
}

// c12Compact removes whitespace outside string literals and checks, on the way, that
// every line break is followed by exactly depth*unit indentation characters.
func c12Compact(s string, unit int, ch byte) (string, bool) {
	var out []byte
	depth := 0
	inStr := false
	for i := 0; i < len(s); i++ {
		b := s[i]
		if inStr {
			out = append(out, b)
			if b == '\\' {
				i++
				if i < len(s) {
					out = append(out, s[i])
				}
			} else if b == '"' {
				inStr = false
			}
			continue
		}
		switch b {
		case '"':
			inStr = true
			out = append(out, b)
		case '[', '{':
			depth++
			out = append(out, b)
		case ']', '}':
			depth--
			out = append(out, b)
		case '\n':
			// count the indentation that follows
			j := i + 1
			for j < len(s) && s[j] == ch {
				j++
			}
			want := depth
			if j < len(s) && (s[j] == ']' || s[j] == '}') {
				want = depth - 1
			}
			if j-(i+1) != want*unit {
				return "", false
			}
			i = j - 1
		case ' ':
			// only the single space after a colon is allowed outside strings
			if len(out) == 0 || out[len(out)-1] != ':' {
				return "", false
			}
		default:
			out = append(out, b)
		}
	}
	return string(out), true
}

func c12CliValue(depth int) any {
	switch nondetChoice(6) {
	case 0:
		return nil
	case 1:
		return nondetBool()
	case 2:
		return hSmallIntCli()
	case 3:
		return nondetString(nondetChoice(2))
	case 4:
		if depth == 0 {
			return []any{}
		}
		n := nondetChoice(3)
		a := make([]any, n)
		for i := range a {
			a[i] = c12CliValue(depth - 1)
		}
		return a
	default:
		if depth == 0 {
			return map[string]any{}
		}
		m := map[string]any{}
		n := nondetChoice(3)
		for i := 0; i < n; i++ {
			k := "b"
			if i == 0 {
				k = "a" + nondetString(nondetChoice(2))
			}
			m[k] = c12CliValue(depth - 1)
		}
		return m
	}
}

func hSmallIntCli() int {
	x := nondetInt()
	vassume(-1000 < x)
	vassume(x < 1000)
	return x
}

// H_C12_cli_modes: all output modes agree with the library up to insignificant
// whitespace and colour, and indentation is exact.
func H_C12_cli_modes() {
	v := c12CliValue(vparam("depth", 2))
	wantB, _ := gojq.Marshal(v)
	want := string(wantB)
	vassert(c12Encode(v, false, -1, false) == want, "compact output equals the library's Marshal")
	color := nondetBool()
	var got string
	unit, ch := 0, byte(' ')
	switch nondetChoice(3) {
	case 0: // --indent n
		n := nondetChoice(8)
		unit = n
		got = c12Encode(v, false, n, color)
		vlabel("mode", "indent")
	case 1: // --tab
		unit, ch = 1, '\t'
		got = c12Encode(v, true, 1, color)
		vlabel("mode", "tab")
	default: // compact with colour
		got = c12Encode(v, false, -1, color)
		vlabel("mode", "compact")
		plain, ok := c12StripSGR(got)
		vassert(ok, "only well-formed SGR sequences are added")
		vassert(plain == want, "compact output equals the library's after removing colour")
		vreach("compact")
		return
	}
	plain, ok := c12StripSGR(got)
	vassert(ok, "only well-formed SGR sequences are added")
	if !ok {
		return
	}
	if !color {
		vassert(plain == got, "no escape sequence without colour")
	}
	if unit == 0 {
		// --indent 0 prints like compact but with a space after colons... it is compact with newlines removed
		c, ok2 := c12Compact(plain, 0, ch)
		vassert(ok2, "indent 0: no line breaks, only single spaces after colons")
		if ok2 {
			vassert(c == want, "indent 0 agrees with the library up to insignificant whitespace")
		}
		vreach("indent0")
		return
	}
	c, ok2 := c12Compact(plain, unit, ch)
	vassert(ok2, "every line is indented by exactly depth x unit")
	if ok2 {
		vassert(c == want, "pretty output agrees with the library up to insignificant whitespace")
	}
	vreach("pretty")
}

// H_C12_cli_indent: the block-doubling indentation writer writes exactly n characters.
func H_C12_cli_indent() {
	n := nondetInt()
	vassume(1 <= n)
	vassume(n <= vparam("maxindent", 300))
	tab := nondetBool()
	e := newEncoder(tab, 1)
	e.w.WriteString("x")
	if tab {
		e.writeIndentInternal(n, "\t\t\t\t\t\t\t\t\t\t\t\t\t\t\t\t")
	} else {
		e.writeIndentInternal(n, "                                ")
	}
	bs := e.w.Bytes()
	vassert(len(bs) == n+1, "exactly n indentation characters are written")
	ch := byte(' ')
	if tab {
		ch = '\t'
	}
	for i := 1; i < len(bs); i++ {
		vassert(bs[i] == ch, "only indentation characters are copied")
	}
	vreach("end")
}
