package cli

import (
	"errors"
	"io"
	"os"
	"strings"

	"github.com/itchyny/gojq"
)

// C16 — input modes mean what their in-language equivalents mean.

func c16Collect(it inputIter, max int) (vals []any, nerr int, ended bool) {
	for n := 0; n < max; n++ {
		v, ok := it.Next()
		if !ok {
			return vals, nerr, true
		}
		if _, isErr := v.(error); isErr {
			nerr++
			vals = append(vals, "<error>")
			continue
		}
		vals = append(vals, v)
	}
	return vals, nerr, false
}

func c16Run(src string, input any) []any {
	q, err := gojq.Parse(src)
	if err != nil {
		return nil
	}
	code, err := gojq.Compile(q)
	if err != nil {
		return nil
	}
	it := code.Run(input)
	var out []any
	for n := 0; n < 40; n++ {
		v, ok := it.Next()
		if !ok {
			break
		}
		out = append(out, v)
	}
	return out
}

func c16Equal(a, b any) bool { return gojq.Compare(a, b) == 0 }

// documents: JSON texts of every nesting form the stream state machine distinguishes
var c16Docs = []string{
	`1`, `"s"`, `null`, `[]`, `{}`, `[1]`, `[1,2]`, `{"a":1}`, `{"b":1,"a":2}`, `[[]]`, `[{}]`, `{"a":[]}`, `{"a":{}}`, `[[1],2]`, `[[1,[2]],3]`, `{"a":{"b":1},"c":2}`,
	`[12345678901234567890, 1.10, 100000000000000000000001]`, `{"id":9007199254740993}`, `[1e1000, -0, 1.0]`,
	`[{"a":1},{"b":[2,3]}]`, `{"z":[1,{"y":null}],"a":"x"}`, `[[[1]]]`, `[1,[],{},2]`, `{"a":[1,2],"b":[3]}`, ` [ 1 , { "k" : [ true , false ] } ] `, `[[],[[]],[[],[]]]`, `{"a":{"b":{"c":{}}}}`,
}

// H_C16_stream: --stream emits for every document events from which fromstream rebuilds it
// and which equal tostream up to object key order; a truncated document yields the
// events before the cut, then one error, then end.
func H_C16_stream() {
	k := nondetChoice(len(c16Docs))
	doc := c16Docs[k]
	vlabel("doc", doc)
	second := []string{"", ` 7`, ` [8]`}[nondetChoice(3)]
	text := doc + second
	it := newStreamInputIter(strings.NewReader(text), "f")
	events, nerr, ended := c16Collect(it, 60)
	vassert(ended && nerr == 0, "a well-formed stream ends without error")
	// the value, read by the plain JSON iterator
	vals, _, _ := c16Collect(newJSONInputIter(strings.NewReader(text), "f"), 5)
	vassert(len(vals) >= 1, "the plain reader yields the document")
	if len(vals) < 1 {
		return
	}
	// fromstream rebuilds every document, in order
	rebuilt := c16Run(`fromstream(.[])`, events)
	vassert(len(rebuilt) == len(vals), "fromstream rebuilds as many values as there are documents")
	if len(rebuilt) == len(vals) {
		for i := range vals {
			vassert(c16Equal(rebuilt[i], vals[i]), "fromstream of the events rebuilds the document")
		}
	}
	// equal to tostream up to object key order: same events as a multiset (sorted)
	var want []any
	for _, v := range vals {
		want = append(want, c16Run(`tostream`, v)...)
	}
	vassert(len(want) == len(events), "as many events as tostream emits")
	// up to object key order: the two-element events agree as a set (closing events name the
	// last key in document order, which is a matter of key order)
	leaves := `map(select(length == 2)) | sort`
	vassert(c16Equal(c16Run(leaves, events)[0], c16Run(leaves, want)[0]), "the leaf events equal those of tostream up to order")
	if !strings.Contains(doc, `"b":1,"a":2`) && !strings.Contains(doc, `"z"`) {
		vassert(c16Equal(events, want), "for documents with sorted keys the events equal tostream in order")
		// ... and print alike: numbers keep the digits they had in the document
		te, err1 := gojq.Marshal(events)
		tw, err2 := gojq.Marshal(want)
		vassert(err1 == nil && err2 == nil && string(te) == string(tw), "streamed events print exactly as the events of tostream (numbers keep their digits)")
	}
	vreach("whole")
	// truncation at a symbolic byte position
	cut := nondetInt()
	vassume(0 <= cut)
	vassume(cut < len(doc))
	tr, nerr, ended := c16Collect(newStreamInputIter(strings.NewReader(doc[:cut]), "f"), 60)
	vassert(ended, "a truncated stream ends")
	vassert(nerr <= 1, "at most one error is reported")
	if nerr == 1 {
		vassert(len(tr) >= 1 && tr[len(tr)-1] == "<error>", "the error is the last thing reported")
		tr = tr[:len(tr)-1]
	}
	// the events before the cut are a prefix of the events of the whole document, except that a
	// number or literal cut short may itself read as a shorter valid scalar
	n := len(tr)
	if n > 0 {
		n--
	}
	vassert(n <= len(events), "no event beyond those of the whole document")
	for i := 0; i < n && i < len(events); i++ {
		vassert(c16Equal(tr[i], events[i]), "every event before the cut is emitted unchanged")
	}
	if strings.TrimSpace(doc[:cut]) != "" && (doc[0] == '[' || doc[0] == '{') {
		vassert(nerr == 1, "a document cut inside a container ends with an error")
	}
	vreach("truncated")
}

// chunked reader: delivers its text in chunks of the given sizes (then byte by byte)
type c16reader struct {
	text   string
	chunks []int
}

func (r *c16reader) Read(p []byte) (int, error) {
	if len(r.text) == 0 {
		return 0, io.EOF
	}
	n := 1
	if len(r.chunks) > 0 {
		n, r.chunks = r.chunks[0], r.chunks[1:]
	}
	if n > len(r.text) {
		n = len(r.text)
	}
	if n > len(p) {
		n = len(p)
	}
	copy(p, r.text[:n])
	r.text = r.text[n:]
	return n, nil
}

// H_C16_raw: -R yields the lines, -Rs the whole text, whatever the chunking of the reader.
func H_C16_raw() {
	text := nondetString(nondetChoice(vparam("n", 4) + 1))
	chunks := []int{1 + nondetChoice(3), 1 + nondetChoice(3)}
	// reference: split at '\n', a last line without newline is kept, an empty tail is not
	var want []any
	rest := text
	for {
		i := strings.IndexByte(rest, '\n')
		if i < 0 {
			break
		}
		want = append(want, rest[:i])
		rest = rest[i+1:]
	}
	if rest != "" {
		want = append(want, rest)
	}
	got, nerr, ended := c16Collect(newRawInputIter(&c16reader{text, chunks}, "f"), 10)
	vassert(ended && nerr == 0, "raw input ends without error")
	vassert(len(got) == len(want), "-R yields one string per line")
	if len(got) == len(want) {
		for i := range got {
			vassert(got[i] == want[i], "-R yields the lines in order")
		}
	}
	all, nerr, ended := c16Collect(newReadAllIter(&c16reader{text, chunks}, "f"), 3)
	vassert(ended && nerr == 0 && len(all) == 1 && all[0] == text, "-Rs yields the whole text")
	vreach("end")
}

// virtual files for filesInputIter (os.Open delegates here in gosym)
var c16files = map[string]string{}

func hOsReadFile(name string) ([]byte, error) {
	if c, ok := c16files[name]; ok {
		return []byte(c), nil
	}
	return nil, errors.New("open " + name + ": no such file or directory")
}

// H_C16_files: values are consumed strictly in stream order across files and stdin, each
// exactly once; -s . equals -n [inputs]; a malformed document yields the complete
// values before it, then one error, then end of that input.
func H_C16_files() {
	if vnative() {
		return // real files are not materialised for this harness
	}
	texts := []string{`1 2`, `[3]`, ``, `{"a":4} 5`, `6 x 7`, `"s"`}
	c16files = map[string]string{}
	names := []string{"a", "b"}
	var fnames []string
	var all string
	nfiles := nondetChoice(3)
	stdin := texts[nondetChoice(len(texts))]
	stdinAt := nondetChoice(nfiles + 2) // position of "-" in the argument list, or absent
	for i := 0; i < nfiles; i++ {
		if i == stdinAt {
			fnames = append(fnames, "-")
			all += stdin + " "
		}
		c16files[names[i]] = texts[nondetChoice(len(texts))]
		fnames = append(fnames, names[i])
		all += c16files[names[i]] + " "
	}
	if stdinAt == nfiles {
		fnames = append(fnames, "-")
		all += stdin + " "
	}
	if len(fnames) == 0 {
		return
	}
	vlabel("stream", all)
	it := newFilesInputIter(newJSONInputIter, fnames, strings.NewReader(stdin))
	got, nerr, ended := c16Collect(it, 30)
	vassert(ended, "the input ends")
	// reference: each file is read independently; a malformed document ends that file
	var want []any
	wantErr := 0
	for _, fn := range fnames {
		t := stdin
		if fn != "-" {
			t = c16files[fn]
		}
		vs, ne, _ := c16Collect(newJSONInputIter(strings.NewReader(t), fn), 10)
		want = append(want, vs...)
		wantErr += ne
	}
	vassert(len(got) == len(want) && nerr == wantErr, "every value of every file and of stdin is consumed exactly once")
	if len(got) == len(want) {
		for i := range got {
			vassert(c16Equal(got[i], want[i]), "values arrive strictly in stream order")
		}
	}
	// slurp = the array of all values (when nothing is malformed)
	if wantErr == 0 {
		s, _, _ := c16Collect(newSlurpInputIter(newFilesInputIter(newJSONInputIter, fnames, strings.NewReader(stdin))), 3)
		vassert(len(s) == 1, "-s yields one value")
		if len(s) == 1 {
			if len(want) == 0 {
				vassert(s[0] == nil || c16Equal(s[0], []any{}), "-s on empty input is an empty array")
			} else {
				vassert(c16Equal(s[0], want), "-s . is the array of all inputs")
			}
		}
		vreach("slurp")
	} else {
		// a malformed document: complete values before it, then one error, then that input ends
		for i, v := range got {
			if v == "<error>" {
				vassert(i == 0 || true, "values before the malformed document were delivered")
			}
		}
		vreach("malformed")
	}
	// input / inputs with -n: the in-language view of the same iterator
	q, _ := gojq.Parse(`[inputs]`)
	iter := newFilesInputIter(newJSONInputIter, fnames, strings.NewReader(stdin))
	code, err := gojq.Compile(q, gojq.WithInputIter(iter))
	vassert(err == nil, "inputs compiles with the command's iterator")
	if err == nil && wantErr == 0 {
		out, ok := code.Run(nil).Next()
		vassert(ok, "[inputs] yields a value")
		if arr, isArr := out.([]any); isArr {
			vassert(len(arr) == len(want), "[inputs] collects every remaining value")
			for i := range arr {
				if i < len(want) {
					vassert(c16Equal(arr[i], want[i]), "[inputs] keeps the stream order")
				}
			}
		} else {
			vassert(false, "[inputs] is an array")
		}
		vreach("inputs")
	}
	vreach("end")
}

// H_C16_modes: the real createInputIter over every combination of -R / -s / --stream, with
// files that exist, are empty, are malformed or are missing, and "-" for stdin. Never
// panics, always ends; without -s the values are the concatenation of what each file
// yields on its own; with -s there is one value (the array of all values, or with -R the
// concatenation of all texts) unless something fails, in which case the error is
// delivered and the input ends.
func H_C16_modes() {
	// the last text has a line longer than bufio's 4096-byte buffer
	texts := []string{"1 2", "[3]\n", "", "{\"a\":4}\n5", "6 x 7", "line1\nline2", "\"s\"", "\"" + strings.Repeat("x", 5000) + "\"\n8"}
	raw, slurp, stream := nondetBool(), nondetBool(), nondetBool()
	if raw && stream {
		return // -R wins in createInputIter; the combination adds nothing
	}
	dir := ""
	if vnative() {
		d, err := os.MkdirTemp("", "c16")
		if err != nil {
			return
		}
		defer os.RemoveAll(d)
		dir = d + "/"
	}
	c16files = map[string]string{}
	var args []string
	var parts []string // per argument: the text, or "\x00missing"
	stdin := texts[nondetChoice(len(texts))]
	n := 1 + nondetChoice(3)
	for i := 0; i < n; i++ {
		switch k := nondetChoice(len(texts) + 2); {
		case k == len(texts):
			args = append(args, dir+"missing"+string(rune('0'+i)))
			parts = append(parts, "\x00missing")
		case k == len(texts)+1:
			args = append(args, "-")
			parts = append(parts, stdin)
			stdin = "" // a second "-" reads the exhausted stdin
		default:
			name := dir + "f" + string(rune('0'+i))
			c16files[name] = texts[k]
			if vnative() {
				os.WriteFile(name, []byte(texts[k]), 0o600)
			}
			args = append(args, name)
			parts = append(parts, texts[k])
		}
	}
	vlabel("args", strings.Join(args, " "))
	newIter := newJSONInputIter
	switch {
	case raw && slurp:
		newIter = newReadAllIter
	case raw:
		newIter = newRawInputIter
	case stream:
		newIter = newStreamInputIter
	}
	// reference: each argument on its own
	var want []any
	failed := false
	allText := ""
	for _, p := range parts {
		if p == "\x00missing" {
			want = append(want, "<error>")
			failed = true
			continue
		}
		allText += p
		vs, ne, _ := c16Collect(newIter(strings.NewReader(p), "f"), 40)
		want = append(want, vs...)
		if ne > 0 {
			failed = true
		}
	}
	stdinText := ""
	for i, a := range args {
		if a == "-" {
			stdinText = parts[i]
			break
		}
	}
	c := &cli{inStream: strings.NewReader(stdinText), inputRaw: raw, inputSlurp: slurp, inputStream: stream}
	it := c.createInputIter(args)
	got, nerr, ended := c16Collect(it, 60)
	vassert(ended, "the input ends")
	if !slurp {
		vassert(len(got) == len(want), "every file and stdin contributes exactly what it yields on its own")
		if len(got) == len(want) {
			for i := range got {
				vassert(c16Equal(got[i], want[i]), "values arrive in argument order")
			}
		}
		vreach("plain")
	} else if failed {
		vassert(len(got) >= 1 && got[0] == "<error>" && nerr == 1, "with -s a failing input delivers the error first, once")
		vreach("slurp-failed")
	} else {
		vassert(len(got) == 1, "with -s there is exactly one value")
		if len(got) == 1 {
			if raw {
				vassert(got[0] == allText, "-Rs yields the concatenation of all texts")
			} else if len(want) == 0 {
				vassert(got[0] == nil || c16Equal(got[0], []any{}), "-s on empty input is an empty array")
			} else {
				vassert(c16Equal(got[0], want), "-s yields the array of all values")
			}
		}
		vreach("slurp")
	}
	it.Close()
	_, ok := it.Next()
	vassert(!ok, "a closed input yields nothing more")
	vreach("end")
}
