package cli

import (
	"bytes"
	"errors"
	"os"
	"strconv"
	"strings"

	"github.com/itchyny/gojq"
)

// C15 — the command prints exactly what the library yields, with documented statuses.
// (*cli).run is executed for real; only its environment is replaced: in gosym the
// reflect-based flag parser is substituted by hStub_parseFlags, which fills flagopts
// from the option set chosen by the harness (natively the same option set is rendered
// as command-line arguments and parsed by the real parser); stdin is a string reader.

type c15opts struct {
	raw, raw0, join, compact, tab, exit, null, slurp bool
	indent                                           int // -1: not given
	rawIn                                            bool
	arg, argjson                                     [][2]string // --arg k v / --argjson k text
	positional                                       []string    // after --args or --jsonargs
	jsonargs                                         bool
}

var c15cur c15opts
var c15query string

func (o c15opts) args(query string) []string {
	var a []string
	add := func(b bool, f string) {
		if b {
			a = append(a, f)
		}
	}
	add(o.raw, "-r")
	add(o.raw0, "--raw-output0")
	add(o.join, "-j")
	add(o.compact, "-c")
	add(o.tab, "--tab")
	add(o.exit, "-e")
	add(o.null, "-n")
	add(o.slurp, "-s")
	if o.indent >= 0 {
		a = append(a, "--indent", strconv.Itoa(o.indent))
	}
	add(o.rawIn, "-R")
	for _, kv := range o.arg {
		a = append(a, "--arg", kv[0], kv[1])
	}
	for _, kv := range o.argjson {
		a = append(a, "--argjson", kv[0], kv[1])
	}
	a = append(a, "-M", query)
	if len(o.positional) > 0 {
		if o.jsonargs {
			a = append(a, "--jsonargs")
		} else {
			a = append(a, "--args")
		}
		a = append(a, o.positional...)
	}
	return a
}

// hStub_parseFlags replaces the reflect-based parser in the symbolic run.
func hStub_parseFlags(args []string, opts any) ([]string, error) {
	o := opts.(*flagopts)
	c := c15cur
	o.OutputRaw, o.OutputRaw0, o.OutputJoin, o.OutputCompact, o.OutputTab = c.raw, c.raw0, c.join, c.compact, c.tab
	o.ExitStatus, o.InputNull, o.InputSlurp, o.OutputMono = c.exit, c.null, c.slurp, true
	if c.indent >= 0 {
		n := c.indent
		o.OutputIndent = &n
	}
	o.InputRaw = c.rawIn
	for _, kv := range c.arg {
		if o.Arg == nil {
			o.Arg = map[string]string{}
		}
		o.Arg[kv[0]] = kv[1]
	}
	for _, kv := range c.argjson {
		if o.ArgJSON == nil {
			o.ArgJSON = map[string]string{}
		}
		o.ArgJSON[kv[0]] = kv[1]
	}
	for _, p := range c.positional {
		if c.jsonargs {
			o.JSONArgs = append(o.JSONArgs, p)
		} else {
			o.Args = append(o.Args, p)
		}
	}
	return []string{c15query}, nil
}

func hOsStat(string) (os.FileInfo, error)   { return nil, errors.New("no such file or directory") }
func hOsUserHomeDir() (string, error)       { return "/v/home", nil }
func hOsGetenv(string) string               { return "" }

var c15Queries = []string{`select(. == 1)`, `select(. == null)`, `select(. != 2 and . != 3)`, `if . == 1 then error("x") else "bye\n" | halt_error(3) end`, `if . == 1 then error else halt end`, `"\u0000"`, `"\u0000xy", 1`, `"a", "\u0000", "b"`, `.`, `.[]`, `empty`, `error`, `.[] | if . then . else error end`, `halt`, `halt_error`, `halt_error(3)`, `"a", halt`, `., .`, `.[]?`, `error("x")`, `"x\u0000y"`, `null`, `false, 1`, `1, null`, `"s"`, `[.]`, `{a: .}`, `halt_error(257)`, `(1, error("e"), 2)`, `"ok" | halt_error(0)`, `{"m":1} | halt_error`, `input`, `[inputs]`}

var c15Inputs = []string{`null 2`, `false 1 2`, ``, `1`, `null`, `"s"`, `[1,null]`, `[true,false]`, `{"a":[1]}`, `1 2`, `"a" [] 3`, `1 x`, `[1] } 2`, `"a\u0000b"`, `false`}

// c15Render: the selected format of one value (the encoder itself is checked in C12)
func c15Render(v any, o c15opts) (string, bool) {
	if s, ok := v.(string); ok && (o.raw || o.raw0 || o.join) {
		if o.raw0 && strings.ContainsRune(s, '\x00') {
			return "", false
		}
		return s, true
	}
	indent := 2
	if o.compact {
		indent = -1
	} else if o.tab {
		indent = 1
	} else if o.indent >= 0 {
		indent = o.indent
	}
	var b bytes.Buffer
	old := noColor
	noColor = true
	newEncoder(o.tab, indent).marshal(v, &b)
	noColor = old
	return b.String(), true
}

func H_C15_run() {
	o := c15opts{indent: -1}
	o.raw, o.raw0, o.join = nondetBool(), nondetBool(), nondetBool()
	o.compact = nondetBool()
	o.exit, o.null, o.slurp = nondetBool(), nondetBool(), nondetBool()
	qi := nondetChoice(vparam("queries", len(c15Queries)))
	c15Check(o, c15Queries[qi], c15Inputs[nondetChoice(vparam("inputs", len(c15Inputs)))])
}

// H_C15_format: every combination of the format options (they are not exclusive: --tab
// wins over --indent, -c over both) x terminator options x values of every shape.
func H_C15_format() {
	o := c15opts{indent: -1}
	o.raw, o.raw0, o.join = nondetBool(), nondetBool(), nondetBool()
	o.compact, o.tab = nondetBool(), nondetBool()
	if vparam("allindents", 0) == 1 {
		o.indent = nondetChoice(11) - 1
	} else {
		o.indent = []int{-1, 0, 3, 7}[nondetChoice(4)]
	}
	queries := []string{`.`, `.[]`, `{a: .}`, `[., [.]]`, `"s", .`, `{"k": {"l": [1, {"m": .}]}}`}
	inputs := []string{`[1,null]`, `{"a":[1]}`, `"a\u0000b"`, `[[],{}]`, `"s"`}
	c15Check(o, queries[nondetChoice(len(queries))], inputs[nondetChoice(len(inputs))])
}

func c15Check(o c15opts, query, stdin string) {
	vlabel("query", query)
	vlabel("stdin", stdin)
	c15cur, c15query = o, query
	var out, errOut bytes.Buffer
	c := &cli{inStream: strings.NewReader(stdin), outStream: &out, errStream: &errOut}
	status := c.run(o.args(query))

	// ---- the specification ----
	q, err := gojq.Parse(query)
	if err != nil {
		vassert(status == exitCodeCompileErr && out.Len() == 0, "a query that does not parse is status 3 and prints nothing on stdout")
		return
	}
	// the values the inputs deliver (the iterators are checked in C16)
	var docs []any
	inputErr := false
	it := newJSONInputIter(strings.NewReader(stdin), "<stdin>")
	for n := 0; n < 8; n++ {
		v, ok := it.Next()
		if !ok {
			break
		}
		if _, isErr := v.(error); isErr {
			inputErr = true
			break
		}
		docs = append(docs, v)
	}
	// what the command's input iterator delivers: the documents, or with -s their array
	// (nothing but an error if the stream is malformed); `input` shares this iterator
	restVals := docs
	malformed := errors.New("malformed input")
	if inputErr {
		restVals = append(append([]any{}, docs...), malformed)
	}
	if o.slurp {
		restVals = []any{malformed}
		if !inputErr {
			arr := []any{}
			arr = append(arr, docs...)
			restVals = []any{arr}
		}
	}
	rest := &c15iter{vals: restVals}
	var inputs []any
	if o.null {
		inputs = []any{nil}
	}
	code, err := gojq.Compile(q, gojq.WithInputIter(rest), gojq.WithVariables([]string{"$ARGS"}))
	if err != nil {
		vassert(status == exitCodeCompileErr && out.Len() == 0, "a query that does not compile is status 3 and prints nothing on stdout")
		return
	}
	want := ""
	wantStatus := exitCodeOK
	runtimeErr := false // set when the malformed part of the stream is actually reached
	var last interface{}
	have := false
	halted := false
	next := func() (any, bool) {
		if o.null {
			if len(inputs) == 0 {
				return nil, false
			}
			v := inputs[0]
			inputs = inputs[1:]
			return v, true
		}
		return rest.Next()
	}
	args := map[string]any{"named": map[string]any{}, "positional": []any{}}
	for !halted {
		v, ok := next()
		if !ok {
			break
		}
		if _, isErr := v.(error); isErr {
			runtimeErr = true // reported on stderr; the next input (there is none) would still be processed
			continue
		}
		vals := code.Run(v, args)
		for n := 0; n < 6; n++ {
			x, ok := vals.Next()
			if !ok {
				break
			}
			if e, isErr := x.(error); isErr {
				if he, isHalt := e.(*gojq.HaltError); isHalt {
					halted = true
					wantStatus = he.ExitCode()
					if he.Value() == nil {
						// plain halt: status 0... unless --exit-status bookkeeping applies below
					}
				} else {
					runtimeErr = true
				}
				break
			}
			r, ok := c15Render(x, o)
			if !ok {
				runtimeErr = true
				break
			}
			want += r
			if o.raw0 {
				want += "\x00"
			} else if !o.join {
				want += "\n"
			}
			last, have = x, true
		}
	}
	vassert(out.String() == want, "stdout is the concatenation of the library's outputs in the selected format with the selected terminator")
	if halted {
		vassert(status == wantStatus&0xFF || status == wantStatus, "halt / halt_error stop at once with the requested status")
		vreach("halt")
		return
	}
	switch {
	case runtimeErr:
		vassert(status == exitCodeDefaultErr, "status 5 after any runtime or input error")
		vreach("status5")
	case o.exit && !have:
		vassert(status == exitCodeNoValueErr, "status 4 under --exit-status when there is no output")
		vreach("status4")
	case o.exit && (last == nil || last == false):
		vassert(status == exitCodeFalsyErr, "status 1 under --exit-status when the last output is false or null")
		vreach("status1")
	default:
		vassert(status == exitCodeOK, "status 0 otherwise")
		vreach("status0")
	}
}

type c15iter struct {
	vals []any
	i    int
}

func (it *c15iter) Next() (any, bool) {
	if it.i >= len(it.vals) {
		return nil, false
	}
	it.i++
	return it.vals[it.i-1], true
}

// ---- C16: argument flags mean what the same text means as an input ----

func c15Invoke(o c15opts, query, stdin string) (string, int) {
	c15cur, c15query = o, query
	var out, errOut bytes.Buffer
	c := &cli{inStream: strings.NewReader(stdin), outStream: &out, errStream: &errOut}
	status := c.run(o.args(query))
	return out.String(), status
}

var c16ArgTexts = []string{`1`, `12345678901234567890`, `1.0`, `"s"`, `[1,{"a":null}]`, `1e1000`, `-0`, `{"b":2,"a":[1.50]}`, `x`, `[1,`, `100000000000000000000000000000000000001`, `0.1e-2`, `null`, `true`}

// H_C16_args: `--jsonargs T` / `--argjson j T` bind the value that the text T yields as an
// input document (same printed form, same failure), `--args v` / `--arg k v` bind the
// string v; $ARGS.named / $ARGS.positional have the documented shape.
func H_C16_args() {
	base := c15opts{indent: -1, compact: true}
	t := c16ArgTexts[nondetChoice(len(c16ArgTexts))]
	vlabel("text", t)
	// what the text means as an input document
	wantOut, wantStatus := c15Invoke(base, `.`, t)
	switch nondetChoice(4) {
	case 0:
		o := base
		o.null, o.jsonargs, o.positional = true, true, []string{`7`, t}
		got, status := c15Invoke(o, `$ARGS.positional[1]`, ``)
		vassert((status == 0) == (wantStatus == 0), "--jsonargs accepts exactly the texts that are accepted as input")
		if status == 0 && wantStatus == 0 {
			vassert(got == wantOut, "--jsonargs binds the value the text yields as an input document")
			shape, _ := c15Invoke(o, `[($ARGS.positional | length), ($ARGS.named | length), ($ARGS | keys)]`, ``)
			vassert(shape == "[2,0,[\"named\",\"positional\"]]\n", "$ARGS has the documented shape")
		}
		vreach("jsonargs")
	case 1:
		o := base
		o.null, o.argjson = true, [][2]string{{"j", t}, {"other", `0`}}
		got, status := c15Invoke(o, `$j`, ``)
		vassert((status == 0) == (wantStatus == 0), "--argjson accepts exactly the texts that are accepted as input")
		if status == 0 && wantStatus == 0 {
			vassert(got == wantOut, "--argjson binds the value the text yields as an input document")
			named, _ := c15Invoke(o, `$ARGS.named.j`, ``)
			vassert(named == wantOut, "$ARGS.named holds the same value")
		}
		vreach("argjson")
	case 2:
		// strings: the bound value prints as the text read raw
		o := base
		o.null, o.positional = true, []string{t, `z`}
		got, status := c15Invoke(o, `$ARGS.positional[0]`, ``)
		r := base
		r.rawIn = true
		want, _ := c15Invoke(r, `.`, t)
		vassert(status == 0 && got == want, "--args binds the strings as they are")
		vreach("args")
	default:
		o := base
		o.null, o.arg = true, [][2]string{{"k", t}}
		got, status := c15Invoke(o, `[$k, $ARGS.named.k] | unique | .[]`, ``)
		r := base
		r.rawIn = true
		want, _ := c15Invoke(r, `.`, t)
		vassert(status == 0 && got == want, "--arg binds the string as it is, also in $ARGS.named")
		vreach("arg")
	}
}
