package cli

import "strings"

// C17 (command side) — getLineByOffset / formatLineInfo: the line number is that of the
// offending byte, the excerpt is a piece of that line containing it, the caret column is
// the width of the excerpt before it.

// reference: 1-based line of the byte at 0-based index pos; a terminator (LF, CRLF, CR)
// belongs to the line it ends. Also returns the start and end (exclusive) of the line text.
func c17RefLine(s string, pos int) (line, start, end int) {
	line, start = 1, 0
	for i := 0; i < len(s); i++ {
		n := 0
		if s[i] == '\n' {
			n = 1
		} else if s[i] == '\r' {
			n = 1
			if i+1 < len(s) && s[i+1] == '\n' {
				n = 2
			}
		}
		if n == 0 {
			continue
		}
		if pos < i+n || i+n == len(s) {
			return line, start, i
		}
		line++
		start = i + n
		i += n - 1
	}
	return line, start, len(s)
}

func c17Check(str string, offset int) {
	linestr, line, column := getLineByOffset(str, offset)
	if len(str) == 0 {
		vassert(line == 0 && linestr == "" && column == 0, "an empty text has no line")
		return
	}
	pos := offset - 1
	if pos < 0 {
		pos = 0
	}
	if pos > len(str) {
		pos = len(str)
	}
	wantLine, start, end := c17RefLine(str, pos)
	vassert(line == wantLine, "the line number is 1 + the number of line terminators before the offending byte")
	text := str[start:end]
	vassert(len(linestr) <= 64, "the excerpt is at most 64 bytes")
	vassert(strings.Contains(text, linestr), "the quoted line is an excerpt of the offending byte's line")
	if refValidUTF8(text) {
		vassert(refValidUTF8(linestr), "the excerpt never splits a UTF-8 sequence")
	}
	vassert(0 <= column && column <= len(linestr), "the caret column lies within the excerpt")
	if pos >= start && pos < end && column < len(linestr) && c17Printable(linestr) {
		vassert(linestr[column] == str[pos], "the caret stands under the offending character")
		vreach("caret")
	}
	_ = formatLineInfo(linestr, line, column)
	vreach("end")
}

func c17Printable(s string) bool {
	for i := 0; i < len(s); i++ {
		if s[i] < 0x20 || s[i] > 0x7e {
			return false
		}
	}
	return true
}

// H_C17_utf8: lines of multi-byte characters around the 48/64-byte excerpt window: the
// excerpt is cut at character boundaries and the caret column counts display cells.
func H_C17_utf8() {
	chars := []string{"\u00e9", "\u3042", "\U0001F600", "a"}
	ch := chars[nondetChoice(len(chars))]
	k := []int{0, 15, 16, 17, 23, 24, 31, 32, 33}[nondetChoice(9)]
	tail := []int{0, 5, 30}[nondetChoice(3)]
	line := strings.Repeat(ch, k) + "X" + strings.Repeat(ch, tail)
	str := "l1\n" + line + "\nl3"
	// the offending byte is the X, or any character start
	offset := nondetInt()
	vassume(1 <= offset)
	vassume(offset <= len(str)+1)
	linestr, lineno, column := getLineByOffset(str, offset)
	pos := offset - 1
	wantLine, start, end := c17RefLine(str, pos)
	vassert(lineno == wantLine, "the line number is 1 + the number of line terminators before the offending byte")
	vassert(len(linestr) <= 64, "the excerpt is at most 64 bytes")
	vassert(strings.Contains(str[start:end], linestr), "the quoted line is an excerpt of the offending byte's line")
	vassert(refValidUTF8(linestr), "the excerpt never splits a UTF-8 sequence")
	// width model for these characters: 1 for a and e-acute, 2 for the kana and the emoji
	w := 1
	if len(ch) >= 3 {
		w = 2
	}
	if pos >= start && pos < end && (str[pos]&0xC0) != 0x80 {
		// the byte starts a character: the excerpt contains it, preceded by column/w characters
		n := column / w
		if str[pos] == 'X' {
			idx := strings.IndexByte(linestr, 'X')
			vassert(idx >= 0, "the excerpt contains the offending character")
			if idx >= 0 {
				vassert(column == w*(idx/len(ch)), "the caret column is the display width of the excerpt before the offending character")
			}
			vreach("caret")
		} else {
			vassert(n*len(ch) <= len(linestr), "the caret column lies within the excerpt")
		}
	}
	_ = formatLineInfo(linestr, lineno, column)
	vreach("end")
}

// H_C17_line: short texts over {printable, LF, CR} and a symbolic offset.
func H_C17_line() {
	n := nondetChoice(vparam("n", 4) + 1)
	bs := make([]byte, n)
	for i := range bs {
		switch nondetChoice(3) {
		case 0:
			bs[i] = '\n'
		case 1:
			bs[i] = '\r'
		default:
			c := nondetByte()
			vassume(0x20 <= c)
			vassume(c <= 0x7e)
			bs[i] = c
		}
	}
	offset := nondetInt()
	vassume(-2 <= offset)
	vassume(offset <= n+2)
	c17Check(string(bs), offset)
}

// H_C17_long: long lines around the 48/64-byte excerpt window, a preceding line, and a
// symbolic offset.
func H_C17_long() {
	pre := []string{"", "first\n", "a\r\nb\r"}[nondetChoice(3)]
	ks := []int{0, 47, 48, 49, 64, 65, 40, 50, 63, 90}
	ms := []int{0, 16, 17, 40, 1, 15, 80}
	nk, nm := 6, 4
	if vparam("full", 0) == 1 {
		nk, nm = len(ks), len(ms)
	}
	k := ks[nondetChoice(nk)]
	m := ms[nondetChoice(nm)]
	c := nondetByte()
	vassume(0x21 <= c)
	vassume(c <= 0x7e)
	line := strings.Repeat("a", k) + string([]byte{c}) + strings.Repeat("b", m)
	post := []string{"", "\nlast"}[nondetChoice(2)]
	str := pre + line + post
	offset := nondetInt()
	vassume(1 <= offset)
	vassume(offset <= len(str)+1)
	c17Check(str, offset)
}
