package cli

import (
	"encoding/json"
	"errors"
	"io"
	"strings"
)

// C17 (command side) — getLineByOffset / formatLineInfo: the line number is that of the
// offending byte, the excerpt is a piece of that line containing it, the caret column is
// the width of the excerpt before it.

// reference: 1-based line of the byte at 0-based index pos; a terminator (LF, CRLF, CR)
// belongs to the line it ends. Also returns the start and end (exclusive) of the line text.
func c17RefLine(s string, pos int) (line, start, end int) {
	line, start = 1, 0
	for i := 0; i < len(s); i++ {
		n := 0
		if s[i] == '\n' {
			n = 1
		} else if s[i] == '\r' {
			n = 1
			if i+1 < len(s) && s[i+1] == '\n' {
				n = 2
			}
		}
		if n == 0 {
			continue
		}
		if pos < i+n || i+n == len(s) {
			return line, start, i
		}
		line++
		start = i + n
		i += n - 1
	}
	return line, start, len(s)
}

func c17Check(str string, offset int) {
	linestr, line, column := getLineByOffset(str, offset)
	if len(str) == 0 {
		vassert(line == 0 && linestr == "" && column == 0, "an empty text has no line")
		return
	}
	pos := offset - 1
	if pos < 0 {
		pos = 0
	}
	if pos > len(str) {
		pos = len(str)
	}
	wantLine, start, end := c17RefLine(str, pos)
	vassert(line == wantLine, "the line number is 1 + the number of line terminators before the offending byte")
	text := str[start:end]
	vassert(len(linestr) <= 64, "the excerpt is at most 64 bytes")
	vassert(strings.Contains(text, linestr), "the quoted line is an excerpt of the offending byte's line")
	if refValidUTF8(text) {
		vassert(refValidUTF8(linestr), "the excerpt never splits a UTF-8 sequence")
	}
	vassert(0 <= column && column <= len(linestr), "the caret column lies within the excerpt")
	if pos >= start && pos < end && column < len(linestr) && c17Printable(linestr) {
		vassert(linestr[column] == str[pos], "the caret stands under the offending character")
		vreach("caret")
	}
	_ = formatLineInfo(linestr, line, column)
	vreach("end")
}

func c17Printable(s string) bool {
	for i := 0; i < len(s); i++ {
		if s[i] < 0x20 || s[i] > 0x7e {
			return false
		}
	}
	return true
}

// H_C17_utf8: lines of multi-byte characters around the 48/64-byte excerpt window: the
// excerpt is cut at character boundaries and the caret column counts display cells.
func H_C17_utf8() {
	chars := []string{"\u00e9", "\u3042", "\U0001F600", "a"}
	ch := chars[nondetChoice(len(chars))]
	k := []int{0, 15, 16, 17, 23, 24, 31, 32, 33}[nondetChoice(9)]
	tail := []int{0, 5, 30}[nondetChoice(3)]
	line := strings.Repeat(ch, k) + "X" + strings.Repeat(ch, tail)
	str := "l1\n" + line + "\nl3"
	// the offending byte is the X, or any character start
	offset := nondetInt()
	vassume(1 <= offset)
	vassume(offset <= len(str)+1)
	linestr, lineno, column := getLineByOffset(str, offset)
	pos := offset - 1
	wantLine, start, end := c17RefLine(str, pos)
	vassert(lineno == wantLine, "the line number is 1 + the number of line terminators before the offending byte")
	vassert(len(linestr) <= 64, "the excerpt is at most 64 bytes")
	vassert(strings.Contains(str[start:end], linestr), "the quoted line is an excerpt of the offending byte's line")
	vassert(refValidUTF8(linestr), "the excerpt never splits a UTF-8 sequence")
	// width model for these characters: 1 for a and e-acute, 2 for the kana and the emoji
	w := 1
	if len(ch) >= 3 {
		w = 2
	}
	if pos >= start && pos < end && (str[pos]&0xC0) != 0x80 {
		// the byte starts a character: the excerpt contains it, preceded by column/w characters
		n := column / w
		if str[pos] == 'X' {
			idx := strings.IndexByte(linestr, 'X')
			vassert(idx >= 0, "the excerpt contains the offending character")
			if idx >= 0 {
				vassert(column == w*(idx/len(ch)), "the caret column is the display width of the excerpt before the offending character")
			}
			vreach("caret")
		} else {
			vassert(n*len(ch) <= len(linestr), "the caret column lies within the excerpt")
		}
	}
	_ = formatLineInfo(linestr, lineno, column)
	vreach("end")
}

// H_C17_line: short texts over {printable, LF, CR} and a symbolic offset.
func H_C17_line() {
	n := nondetChoice(vparam("n", 4) + 1)
	bs := make([]byte, n)
	for i := range bs {
		switch nondetChoice(3) {
		case 0:
			bs[i] = '\n'
		case 1:
			bs[i] = '\r'
		default:
			c := nondetByte()
			vassume(0x20 <= c)
			vassume(c <= 0x7e)
			bs[i] = c
		}
	}
	offset := nondetInt()
	vassume(-2 <= offset)
	vassume(offset <= n+2)
	c17Check(string(bs), offset)
}

// H_C17_long: long lines around the 48/64-byte excerpt window, a preceding line, and a
// symbolic offset.
func H_C17_long() {
	pre := []string{"", "first\n", "a\r\nb\r"}[nondetChoice(3)]
	ks := []int{0, 47, 48, 49, 64, 65, 40, 50, 63, 90}
	ms := []int{0, 16, 17, 40, 1, 15, 80}
	nk, nm := 6, 4
	if vparam("full", 0) == 1 {
		nk, nm = len(ks), len(ms)
	}
	k := ks[nondetChoice(nk)]
	m := ms[nondetChoice(nm)]
	c := nondetByte()
	vassume(0x21 <= c)
	vassume(c <= 0x7e)
	line := strings.Repeat("a", k) + string([]byte{c}) + strings.Repeat("b", m)
	post := []string{"", "\nlast"}[nondetChoice(2)]
	str := pre + line + post
	offset := nondetInt()
	vassume(1 <= offset)
	vassume(offset <= len(str)+1)
	c17Check(str, offset)
}

// ---- the windowed re-read of a seekable input (getContents) ----

// c17Window: the report is built from a window of the input. It is right when the window
// is a contiguous part of the input lying where the relative offset says (so the
// offending byte is in it, at that offset), the lines skipped before it are counted, and
// the printed line number is the true one. The excerpt and the caret then follow from
// getLineByOffset on (window, relative offset), decided for every text by H_C17_line/long/utf8.
func c17Window(whole string, abs int, contents string, rel int, line int, eof bool) {
	if eof {
		vassert(rel == len(contents)+1, "an unexpected end of input is reported one past the last byte of the window")
	} else {
		vassert(1 <= rel && rel <= len(contents), "the window contains the offending byte")
	}
	ws := abs - rel
	ok := ws >= 0 && ws+len(contents) <= len(whole)
	vassert(ok, "the window lies inside the input")
	if !ok {
		return
	}
	vassert(whole[ws:ws+len(contents)] == contents, "the window is the part of the input at the position the relative offset implies")
	_, wantLine, _ := getLineByOffset(whole, abs)
	_, gotLine, _ := getLineByOffset(contents, rel)
	vassert(gotLine+line == wantLine, "the printed line number is the line of the offending byte within the whole input")
}


type c17stream struct {
	data []byte
	pos  int64
}

func (s *c17stream) Read(p []byte) (int, error) {
	if s.pos >= int64(len(s.data)) {
		return 0, io.EOF
	}
	n := copy(p, s.data[s.pos:])
	s.pos += int64(n)
	return n, nil
}

func (s *c17stream) Seek(off int64, whence int) (int64, error) {
	switch whence {
	case io.SeekCurrent:
		off += s.pos
	case io.SeekEnd:
		off += int64(len(s.data))
	}
	if off < 0 {
		return 0, errors.New("negative position")
	}
	s.pos = off
	return off, nil
}

func vmemo_c17data(L, S, term int) []byte {
	data := make([]byte, S)
	for i := range data {
		data[i] = 'a' + byte(i%23)
		if i%L == L-1 {
			data[i] = '\n'
			if term == 2 {
				data[i] = '\r'
			}
		}
		if term == 1 && i%L == L-2 {
			data[i] = '\r'
		}
	}
	return data
}

var c17Terms = []string{"LF", "CRLF", "CR"}

// H_C17_window: for a seekable input larger than the 16 KiB window, the report built from
// the window (getContents + jsonParseError.Error) names the same line, quotes the same
// excerpt and puts the caret in the same column as the report built from the whole input
// (whose arithmetic H_C17_line/long/utf8 decide). The offending offset ranges over +-6
// around every boundary of the window arithmetic; line lengths below and above the
// guaranteed left context; input sizes that end inside a skipped block.
func H_C17_window() {
	L := []int{997, 70000, 5000}[nondetChoice(3)]
	S := []int{40000, 16385, 28677, 16384, 20000, 12289, 49152}[nondetChoice(7)]
	term := nondetChoice(3)
	vlabel("terminator", c17Terms[term])
	data := vmemo_c17data(L, S, term)
	bases := []int{1, 4096, 8192, 12288, 16384, 20480, 24576, 28672, 32768, 36864, 40000, 45056, 49152}
	O := bases[nondetChoice(len(bases))]
	// the offsets are enumerated, not symbolic: the content of a window that starts at a
	// symbolic position is 16 KiB of symbolic bytes, which puts every byte comparison of the
	// line scanner on the solver (measured: 15 M queries without finishing)
	O += nondetChoice(13) - 6
	unexpectedEOF := nondetBool()
	if unexpectedEOF {
		O = S // the decoder ran out of input: the report points one past the last byte
	}
	if O < 1 || O > S {
		return
	}
	whole := string(data)
	st := &c17stream{data: data, pos: int64(nondetChoice(2) * 5000)}
	before := st.pos
	ir := newInputReader(st)
	vassert(ir.rs != nil, "a seekable reader is re-read through Seek")
	off, line := int64(O), 0
	contents := ir.getContents(&off, &line)
	vassert(st.pos == before, "the reading position is restored after building the report")
	vassert(len(contents) <= 16*1024, "the window is at most 16 KiB")
	var e error = &json.SyntaxError{Offset: off}
	if unexpectedEOF {
		e = io.ErrUnexpectedEOF
	}
	pe := &jsonParseError{"f", contents, line, e}
	abs := O
	if unexpectedEOF {
		abs = S + 1
	}
	rel := int(off)
	if unexpectedEOF {
		rel = len(contents) + 1 // what Error() uses for an unexpected end of input
	}
	c17Window(whole, abs, contents, rel, line, unexpectedEOF)
	vassert(len(pe.Error()) > 0, "the report is rendered")
	vreach("end")
}

// ---- the tee buffer of a non-seekable input (pipes, stdin) ----

type c17pipe struct {
	data  string
	chunk int
}

func (p *c17pipe) Read(b []byte) (int, error) {
	if len(p.data) == 0 {
		return 0, io.EOF
	}
	n := len(b)
	if n > p.chunk {
		n = p.chunk
	}
	if n > len(p.data) {
		n = len(p.data)
	}
	copy(b, p.data[:n])
	p.data = p.data[n:]
	return n, nil
}

func vmemo_c17docs(n, kind int) string {
	return strings.Repeat(c17Docs[kind], n)
}

var c17Docs = []string{
	"[10000, 20000, 30000, 40000, 50000, 60000]\n",
	"{\"key\": \"some string value\", \"n\": 12345} ",
	"[1,\r\n 2, 3, 4, 5, 6, 7, 8, 9, 10, 11, 12, 13]\r\n",
	"[100000, 200000, 300000, 400000]\r",
	"1\n",
}

var c17Bad = []string{"[1,2,x]\n", "{\"a\" 1}\n", "tru3\n2\n", "[1,\n 2,\n ]\n"}

func vmemo_c17refOffset(n, kind, badIdx int) int {
	ref := json.NewDecoder(strings.NewReader(vmemo_c17docs(n, kind) + c17Bad[badIdx] + "3\n"))
	for {
		var v any
		if err := ref.Decode(&v); err != nil {
			if se, ok := err.(*json.SyntaxError); ok {
				return int(se.Offset)
			}
			return -1
		}
	}
}

// H_C17_tee: a malformed document in a non-seekable input larger than the 16 KiB tee
// buffer: the report names the same line, quotes the same excerpt and puts the caret in
// the same column as the report computed from the whole input. The number of documents
// before the malformed one is enumerated around the sizes at which the buffer is reset
// (the real decoder runs natively over the interpreted reader, so its read-ahead is real).
func H_C17_tee() {
	kind := nondetChoice(4 + vparam("full", 0))
	unit := len(c17Docs[kind])
	// bytes of well-formed documents in front of the malformed one
	sizes := []int{100, 16000, 16380, 16390, 16500, 17000, 18000, 33000, 16384, 16900, 17500, 20000, 24000, 32000, 32768, 34000, 40000, 50000, 66000}
	ns := 7
	if vparam("full", 0) == 1 {
		ns = len(sizes)
	}
	front := sizes[nondetChoice(ns)] + nondetChoice(3)*unit
	n := front / unit
	vlabel("terminator", []string{"LF", "none", "CRLF", "CR", "LF"}[kind])
	badIdx := nondetChoice(4)
	whole := vmemo_c17docs(n, kind) + c17Bad[badIdx] + "3\n"
	chunk := []int{1 << 20, 4096, 1000}[nondetChoice(3)]
	// reference: where the decoder reports the error when it is given the whole input
	abs := vmemo_c17refOffset(n, kind, badIdx)
	if abs < 0 {
		return
	}
	it := newJSONInputIter(&c17pipe{whole, chunk}, "<stdin>")
	var got error
	for k := 0; k < n+2; k++ {
		v, ok := it.Next()
		if !ok {
			break
		}
		if e, isErr := v.(error); isErr {
			got = e
			break
		}
	}
	pe, ok := got.(*jsonParseError)
	vassert(ok, "the malformed document is reported as a JSON parse error")
	if !ok {
		return
	}
	ge, ok := pe.err.(*json.SyntaxError)
	vassert(ok, "the report carries the decoder's syntax error")
	if !ok {
		return
	}
	c17Window(whole, abs, pe.contents, int(ge.Offset), pe.line, false)
	vassert(len(pe.Error()) > 0, "the report is rendered")
	vreach("end")
}
