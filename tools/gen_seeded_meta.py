#!/usr/bin/env python3
"""tools/gen_seeded_meta.py: writes seeded/<id>/meta.json and seeded/RESULTS.md from
seeded/<id>/{notes.txt,confirm.txt}, seeded/results.tsv (last line per id wins) and
seeded/history.tsv (id <TAB> first-round outcome <TAB> what was strengthened)."""
import json, os, re, sys
root = '/verif/seeded'
ids = sorted(d for d in os.listdir(root) if re.fullmatch(r'C\d\d[a-z]', d))
res = {}
if os.path.exists(f'{root}/results.tsv'):
    for l in open(f'{root}/results.tsv', errors='replace'):
        f = l.rstrip('\n').split('\t')
        if len(f) >= 6:
            res[f[0]] = f
hist = {}
if os.path.exists(f'{root}/history.tsv'):
    for l in open(f'{root}/history.tsv'):
        f = l.rstrip('\n').split('\t')
        if len(f) >= 3:
            hist[f[0]] = f
rows = []
for i in ids:
    notes = open(f'{root}/{i}/notes.txt').read() if os.path.exists(f'{root}/{i}/notes.txt') else ''
    lines = [l for l in notes.splitlines() if l.strip()]
    title = lines[0].strip() if lines else i
    title = re.sub(r'^C\d\d[a-z]\s*[-:–—]*\s*', '', title)
    m = re.search(r'(?ims)^\s*(Trigger\b|Needed to manifest|Needs to manifest)[^\n]*\n?(.*?)(?=^\s*(Commands|Demo|Note|Verification|Why)\b|\Z)', notes)
    needs = (m.group(0).strip() if m else '')
    if len(needs) < 40:
        paras = [p.strip() for p in re.split(r'\n\s*\n', notes) if p.strip()]
        cand = [p for p in paras if re.search(r'(?i)trigger', p)] or [p for p in paras if re.search(r'(?i)property violated|why it violates|violates', p)]
        needs = cand[0] if cand else ''
    needs = needs[:1500]
    confirm = open(f'{root}/{i}/confirm.txt').read() if os.path.exists(f'{root}/{i}/confirm.txt') else ''
    r = res.get(i)
    caught = bool(r and r[2] == '1' and int(r[3] or 0) > 0)
    h = hist.get(i)
    meta = {
        'id': i, 'property': i[:3], 'change': title,
        'needs_to_manifest': needs,
        'files': sorted(f for f in os.listdir(f'{root}/{i}') if f != 'meta.json'),
        'confirmed': confirm.strip(),
        'check_run': (f"tools/try_mutant.sh seeded/{i}/patch.diff {r[1]} (quick tier, scratch worktree): exit={r[2]} violations={r[3]} in {r[4]} s" if r else 'not run'),
        'caught_by_quick_check': caught,
        'first_violated_assertions': (r[5].split(';')[:3] if r else []),
        'first_round': (h[1] if h else ('caught' if caught else 'missed')),
        'strengthened': (h[2] if h else ''),
    }
    json.dump(meta, open(f'{root}/{i}/meta.json', 'w'), indent=1)
    rows.append(meta)
with open(f'{root}/RESULTS.md', 'w') as f:
    f.write('# Seeded changes and the checks that catch them\n\n')
    f.write('Each directory holds patch.diff (applies to /repo HEAD with `git apply`), the demonstration test, the author\'s notes, confirm.txt (what was re-run to confirm it) and meta.json. '
            'All were written by sub-agents that saw only the property text and a scratch worktree. Every change compiles, passes the unedited suite, and makes its demo fail.\n\n')
    n = len(rows); c = sum(1 for m in rows if m['caught_by_quick_check']); fr = sum(1 for m in rows if m['first_round'] == 'caught')
    f.write(f'{n} changes; caught by the registered quick check now: {c}; caught before any strengthening: {fr}.\n\n')
    f.write('| id | change | first run | now | caught by (first violated assertion) | strengthened after a miss |\n|---|---|---|---|---|---|\n')
    for m in rows:
        a = (m['first_violated_assertions'][0] if m['first_violated_assertions'] else '').replace('|', '\\|')[:110]
        f.write(f"| {m['id']} | {m['change'][:120].replace('|','/')} | {m['first_round']} | {'caught' if m['caught_by_quick_check'] else 'MISSED'} | {a} | {m['strengthened'].replace('|','/')} |\n")
print(len(rows), 'meta files written')
