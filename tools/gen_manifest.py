#!/usr/bin/env python3
"""Regenerate MANIFEST.json from checks/*.json and the table below."""
import json, os, glob
V = '/verif'
props = [json.loads(l) for l in open(f'{V}/properties.jsonl')]
TECH = "bounded symbolic execution of the real Go code (own go/ssa interpreter, scalars as SMT terms), every branch feasibility and assertion decided by z3; counterexamples replayed natively"
NOTE_COMMON = "Trusted: go/ssa lowering, the gosym interpreter and its native models/stubs (listed in DESIGN.md App. A and in each evidence file), z3 5.1.0; Go runtime/compiler; bounds as stated in checks/<id>.json and the evidence file."
# per-property claim texts; a property is claimed only if checks/<id>.json exists and it is listed here
CLAIMS = {}
def claim(pid, text, ref, note=None, category='other'):
    CLAIMS[pid] = dict(text=text, ref=ref, note=note or NOTE_COMMON, category=category)

exec(open(f'{V}/tools/claims.py').read())

NA = json.load(open(f'{V}/tools/not_applicable.json'))
checks = []
na = []
for p in props:
    pid = p['id']
    if os.path.exists(f'{V}/checks/{pid}.json') and pid in CLAIMS:
        c = CLAIMS[pid]
        checks.append({
            "property_id": pid,
            "quick_cmd": f"./check {pid} quick",
            "thorough_cmd": f"./check {pid} thorough",
            "evidence_file": f"/verif/evidence/{pid}.json",
            "replay_cmd_template": "./check --replay {path}",
            "engine": "gosym",
            "level_claimed": {"category": c['category'], "text": c['text'], "design_ref": c['ref']},
            "level_note": c['note'],
            "technique": TECH,
        })
    else:
        na.append({"property_id": pid, "reason": NA.get(pid, "check not built yet in this session (planned: see DESIGN.md section 4)")})
m = {
    "version": 1,
    "setup_cmd": "cd /verif && export GOFLAGS=-mod=mod GOPROXY=off && mkdir -p bin evidence/replays && (cd engine && go build -o ../bin/gosym ./cmd/gosym && go vet ./smt ./exec >/dev/null 2>&1; true) && ./check C10 quick -no-evidence >/dev/null",
    "hooks": {
        "guard": "verif",
        "enable": "-tags verif (go/packages BuildFlags for the symbolic run, `go test -tags verif -overlay ...` for native replays); harness files are injected by overlay, never written to /repo",
        "baseline_off_cmd": "cd /repo && GOFLAGS=-mod=mod GOPROXY=off go test -vet=off -count=1 ./...",
        "source_commits": ["ce7b986"],
        "add_only": True,
    },
    "engines": [{"name": "gosym", "path": "/verif/engine", "serves_properties": [c['property_id'] for c in checks],
                 "kind_free_text": "SSA-level symbolic interpreter for Go (go/ssa from golang.org/x/tools v0.29.0) with decision-replay path exploration on 16 workers and z3 (z3-new 5.1.0) over pipes; BV/FP and Int-with-wrap renderings"}],
    "checks": checks,
    "not_applicable": na,
    "notes": "All checks are ./check <id> <tier>; evidence is rewritten on every run; known findings live in /verif/known_findings.txt.",
}
json.dump(m, open(f'{V}/MANIFEST.json', 'w'), indent=1)
print('claimed', [c['property_id'] for c in checks]); print('n/a', [n['property_id'] for n in na])
