claim('C10',
      "For every pair of 64-bit ints and for every pair of mathematical integers carried by *big.Int (no value bound), the solver shows that + - * % negate abs/length and integral / return exactly the big-integer model's result (promotion instead of wrap), that zero divisors are errors, that toInt saturates, and that Compare and the six comparison operators are the exact integer order. This is a bounded-symbolic-execution result: complete over operand values, limited to the representation pairs int|*big.Int and to the kernels listed in the evidence.",
      "DESIGN.md §4 C10")

claim('C04',
      "Translation validation of the real compiler against itself: for each program of a rewrite-biased list and each of the 11 rewrite switches (plus all-off) whose disabling changes the emitted bytecode, the optimised and the de-optimised bytecode are executed symbolically on the real VM over an enumerated input-shape universe with symbolic leaves, and z3 shows the output/error sequences equal on every path (or yields an input, replayed natively with -tags verif). Bounded by the program list, the input shapes, 8 outputs and the fuel; complete over leaf values within the stated ranges.",
      "DESIGN.md §4 C04", category='translation_validation')
claim('C02',
      "For every listed path expression (overlapping, ancestor/descendant, slice-in-slice, generators, optional, conditional) with symbolic indices, every listed body and every input shape of the universe, z3 shows on every path that the real in-place update machinery (`|=`, `=`, `op=`) returns exactly what the defining reduction over path(P) with plain getpath/setpath/delpaths returns, that `del(P)` deletes every path against the original value (Go reference), that the input is left unchanged and that the result is acyclic. Bounded symbolic execution: complete over leaf and index values inside the stated ranges, enumerated over the stated program and shape lists.",
      "DESIGN.md §4 C02")
