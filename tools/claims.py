claim('C10',
      "For every pair of 64-bit ints and for every pair of mathematical integers carried by *big.Int (no value bound), the solver shows that + - * % negate abs/length and integral / return exactly the big-integer model's result (promotion instead of wrap), that zero divisors are errors, that toInt saturates, and that Compare and the six comparison operators are the exact integer order. This is a bounded-symbolic-execution result: complete over operand values, limited to the representation pairs int|*big.Int and to the kernels listed in the evidence.",
      "DESIGN.md §4 C10")
