#!/opt/veriftools/pyvenv/bin/python3
"""Validate MANIFEST.json and every evidence file against the schemas."""
import json, sys, glob, jsonschema
ok = True
m = json.load(open('/verif/MANIFEST.json'))
try:
    jsonschema.validate(m, json.load(open('/root/.vp/MANIFEST.schema.json')))
    print('MANIFEST.json valid; checks:', [c['property_id'] for c in m['checks']])
except Exception as e:
    ok = False; print('MANIFEST invalid:', e)
es = json.load(open('/root/.vp/EVIDENCE.schema.json'))
for f in sorted(glob.glob('/verif/evidence/C*.json')):
    try:
        e = json.load(open(f)); jsonschema.validate(e, es)
        c = e['coverage']
        print(f, 'valid', e['tier'], 'paths', c.get('evaluations'), 'nontrivial', c.get('distinct_nontrivial'), 'oblig', c.get('obligations'), 'disch', c.get('discharged'), 'viol', e.get('violations'), 'wall', round(e['wall_s'],1))
    except Exception as ex:
        ok = False; print(f, 'INVALID', str(ex)[:300])
ids = [json.loads(l)['id'] for l in open('/verif/properties.jsonl')]
claimed = {c['property_id'] for c in m['checks']}
na = {c['property_id'] for c in m.get('not_applicable', [])}
for i in ids:
    if i not in claimed and i not in na:
        ok = False; print('property', i, 'neither claimed nor not_applicable')
sys.exit(0 if ok else 1)
