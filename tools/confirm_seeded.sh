#!/bin/sh
# tools/confirm_seeded.sh <src-dir-with-patch.diff+demo> <id>
# Confirms a seeded change against /repo's HEAD in a scratch worktree (never in /repo):
#   demo passes without the change; with it: builds, the whole suite passes, the demo fails.
# On success copies patch.diff + demo into /verif/seeded/<id>/ and writes confirm.txt.
S="$1"; ID="$2"
export GOFLAGS=-mod=mod GOPROXY=off
W=/tmp/cs.$$
git -C /repo worktree add -q --detach "$W" HEAD || exit 2
cleanup() { cd /; git -C /repo worktree remove --force "$W"; }
cd "$W"
demo=$(ls "$S"/demo_*_test.go | head -1)
sub=.
grep -q '^package cli' "$demo" && sub=cli
cp "$demo" "$W/$sub/"
name=$(grep -o 'func TestDemo[A-Za-z0-9_]*' "$demo" | head -1 | sed 's/func //')
race=""
grep -qi 'race' "$S/notes.txt" 2>/dev/null && grep -q 'go test.*-race.*TestDemo' "$S/notes.txt" && race="-race"
r0=$(go test -vet=off -count=1 $race -run "^$name\$" ./$sub 2>&1 | tail -1)
case "$r0" in ok*) ;; *) echo "CONFIRM $ID demo-fails-without-change: $r0"; cleanup; exit 1;; esac
if ! git apply "$S/patch.diff" 2>/dev/null && ! patch -p1 -s -F3 < "$S/patch.diff" >/dev/null 2>&1; then echo "CONFIRM $ID does-not-apply"; cleanup; exit 1; fi
if ! go build ./... 2>/tmp/cs.$$.err; then echo "CONFIRM $ID does-not-build"; cleanup; exit 1; fi
suite=$(go test -vet=off -count=1 -skip '^TestDemo' ./... 2>&1 | grep -v '^ok\|no test files' | head -3)
if [ -n "$suite" ]; then echo "CONFIRM $ID suite-fails: $suite"; cleanup; exit 1; fi
r1=$(go test -vet=off -count=1 $race -run "^$name\$" ./$sub 2>&1 | tail -1)
case "$r1" in FAIL*|*FAIL*) ;; *) echo "CONFIRM $ID demo-passes-with-change: $r1"; cleanup; exit 1;; esac
git diff > /tmp/cs.$$.diff   # the change as it applies to the current HEAD
mkdir -p /verif/seeded/$ID
cp /tmp/cs.$$.diff /verif/seeded/$ID/patch.diff
cp "$demo" /verif/seeded/$ID/
[ -f "$S/notes.txt" ] && cp "$S/notes.txt" /verif/seeded/$ID/notes.txt
cat > /verif/seeded/$ID/confirm.txt <<EOT
confirmed against /repo HEAD $(git -C /repo rev-parse --short HEAD) in a scratch worktree:
  without the change: go test -vet=off -count=1 $race -run '^$name\$' ./$sub -> $r0
  with the change:    go build ./... ok; go test -vet=off -count=1 -skip '^TestDemo' ./... all ok
                      go test -vet=off -count=1 $race -run '^$name\$' ./$sub -> FAIL
EOT
rm -f /tmp/cs.$$.diff /tmp/cs.$$.err
echo "CONFIRM $ID ok demo=$name sub=$sub race=$race"
cleanup
