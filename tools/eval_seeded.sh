#!/bin/sh
# tools/eval_seeded.sh [id ...]   -- runs every seeded change (or the named ones) against the
# quick check of its property in a scratch worktree; appends to seeded/results.tsv:
#   id <TAB> check <TAB> exit <TAB> violations <TAB> seconds <TAB> first violated assertions
cd /verif
OUT="${RESULTS:-seeded/results.tsv}"
ids="$@"
[ -z "$ids" ] && ids=$(ls seeded | grep '^C[0-9][0-9][a-z]$')
for id in $ids; do
  c=$(echo $id | cut -c1-3)
  out=$(tools/try_mutant.sh /verif/seeded/$id/patch.diff $c)
  rc=$(echo "$out" | sed -n 's/.* exit=\([0-9]*\).*/\1/p' | head -1)
  nv=$(echo "$out" | sed -n 's/.* violations=\([0-9]*\).*/\1/p' | head -1)
  secs=$(echo "$out" | sed -n 's/.* secs=\([0-9]*\).*/\1/p' | head -1)
  what=$(echo "$out" | grep 'violated:' | sed 's/^ *violated: //' | cut -c1-160 | tr '\n' ';' | tr '\t' ' ')
  printf '%s\t%s\t%s\t%s\t%s\t%s\n' "$id" "$c" "$rc" "$nv" "$secs" "$what" >> "$OUT"
done
