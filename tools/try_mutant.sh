#!/bin/sh
# tools/try_mutant.sh <patch.diff> <check> [extra ./check args...]
# Applies a seeded change to a scratch worktree of /repo's HEAD (never to /repo itself),
# runs the named quick check against it, removes the worktree. One RESULT line.
P="$1"; c="$2"; shift; shift
W=/tmp/mrepo.$$
git -C /repo worktree add -q --detach "$W" HEAD || exit 2
cd "$W" || exit 2
if ! git apply "$P" 2>/dev/null && ! git apply -3 "$P" 2>/dev/null && ! patch -p1 -s -F3 < "$P"; then echo "RESULT patch=$P does-not-apply"; cd /; git -C /repo worktree remove --force "$W"; exit 2; fi
t0=$(date +%s)
V="${VERIF_DIR:-/verif}"
out=$(cd "$V" && VERIF_REPO="$W" timeout 3000 ./check "$c" ${TIER:-quick} -no-evidence "$@" 2>&1); rc=$?
t1=$(date +%s)
nv=$(echo "$out" | grep -c '^VIOLATION')
echo "RESULT patch=$P check=$c $* exit=$rc violations=$nv secs=$((t1-t0))"
echo "$out" | grep '^  violated:' | cut -c1-200 | head -3
[ -n "$SHOW" ] && echo "$out" | tail -${SHOW}
# replay files written for the changed tree are not evidence about /repo
git -C "$V" checkout -q -- evidence/replays 2>/dev/null; git -C "$V" clean -fdq evidence/replays
cd /; git -C /repo worktree remove --force "$W"
