#!/bin/sh
# tools/try_mutant.sh <patch.diff> <check> [<check> ...]
# Applies a seeded change to a scratch worktree of /repo's HEAD (never to /repo itself),
# runs the named quick checks against it, removes the worktree. One RESULT line per check.
P="$1"; shift
W=/tmp/mrepo.$$
git -C /repo worktree add -q --detach "$W" HEAD || exit 2
cd "$W" || exit 2
if ! git apply "$P"; then echo "RESULT patch=$P does-not-apply"; cd /; git -C /repo worktree remove --force "$W"; exit 2; fi
for c in "$@"; do
  t0=$(date +%s)
  out=$(cd /verif && VERIF_REPO="$W" timeout 1500 ./check "$c" quick -no-evidence 2>&1); rc=$?
  t1=$(date +%s)
  nv=$(echo "$out" | grep -c '^VIOLATION')
  echo "RESULT patch=$P check=$c exit=$rc violations=$nv secs=$((t1-t0))"
  echo "$out" | grep '^  violated:' | cut -c1-200 | head -3
done
cd /; git -C /repo worktree remove --force "$W"
